From Coq Require Import List NArith Bool Arith Lia.
From WTP Require Import Base.Str Proofs.StrProofs Model.ParserFns.
Import ListNotations.
Open Scope N_scope.

(** * replace / count with a one-character needle *)
Lemma startswith_single c s : startswith [c] s = match s with x :: _ => c =? x | [] => false end.
Proof. destruct s as [|x s]; [reflexivity|]. cbn. rewrite andb_true_r. reflexivity. Qed.

Lemma replace_all_single c new s : forall fuel, (length s < fuel)%nat ->
  replace_all [c] new s fuel = flat_map (fun y => if c =? y then new else [y]) s.
Proof. induction s as [|x s IH]; intros fuel Hf; destruct fuel as [|f]; try (cbn in Hf; lia); [reflexivity|].
  cbn [replace_all flat_map]. rewrite startswith_single. cbn [length skipn].
  destruct (c =? x); rewrite IH by (cbn in Hf; lia); reflexivity. Qed.

Lemma replace_fn_single c new s : replace_fn s [c] new = flat_map (fun y => if c =? y then new else [y]) s.
Proof. unfold replace_fn. apply replace_all_single. lia. Qed.

Lemma flat_map_id_when (c : N) new s : forallb (fun y => negb (c =? y)) s = true ->
  flat_map (fun y => if c =? y then new else [y]) s = s.
Proof. induction s as [|x s IH]; cbn; intros H; [reflexivity|]. apply andb_true_iff in H. destruct H as [Hx Hs].
  apply negb_true_iff in Hx. rewrite Hx. cbn. f_equal. apply IH. exact Hs. Qed.

Lemma flat_map_same c s : flat_map (fun y => if c =? y then [c] else [y]) s = s.
Proof. induction s as [|x s IH]; cbn; [reflexivity|]. destruct (N.eqb_spec c x) as [->|]; cbn; f_equal; exact IH. Qed.

Lemma count_sub_single c s : forall fuel, (length s < fuel)%nat -> count_sub [c] s fuel = count_c c s.
Proof. induction s as [|x s IH]; intros fuel Hf; destruct fuel as [|f]; try (cbn in Hf; lia); [reflexivity|].
  cbn [count_sub count_c]. rewrite startswith_single. cbn [length skipn]. rewrite N.eqb_sym.
  destruct (x =? c); rewrite IH by (cbn in Hf; lia); reflexivity. Qed.

(** * digits *)
Definition digits (s : str) : Prop := forallb is_digit s = true.

Lemma digit_neq c x : is_digit c = false -> is_digit x = true -> (c =? x) = false.
Proof. intros Hc Hx. destruct (N.eqb_spec c x) as [->|]; [congruence | reflexivity]. Qed.

Lemma digits_avoid c s : is_digit c = false -> digits s -> forallb (fun y => negb (c =? y)) s = true.
Proof. intros Hc Hs. unfold digits in Hs. rewrite forallb_forall in *. intros y Hy. rewrite (digit_neq c y Hc (Hs y Hy)). reflexivity. Qed.

Lemma digits_app a b : digits (a ++ b) <-> digits a /\ digits b.
Proof. unfold digits. rewrite forallb_app, andb_true_iff. tauto. Qed.

Lemma count_c_digits c s : is_digit c = false -> digits s -> count_c c s = 0%nat.
Proof. intros Hc. induction s as [|x s IH]; intros Hs; [reflexivity|]. unfold digits in Hs. cbn in Hs.
  apply andb_true_iff in Hs. destruct Hs as [Hx Hs]. cbn [count_c]. rewrite N.eqb_sym, (digit_neq c x Hc Hx). apply IH. exact Hs. Qed.

Lemma count_c_app c a b : count_c c (a ++ b) = (count_c c a + count_c c b)%nat.
Proof. induction a as [|x a IH]; cbn [app count_c]; [reflexivity|]. rewrite IH. lia. Qed.

Lemma split_dot_app ip f : digits ip -> split_dot (ip ++ dot :: f) = (ip, Some f).
Proof. induction ip as [|x ip IH]; intros H; cbn [app split_dot].
  - rewrite N.eqb_refl. reflexivity.
  - unfold digits in H. cbn in H. apply andb_true_iff in H. destruct H as [Hx H].
    assert ((x =? dot) = false) as -> by (rewrite N.eqb_sym; apply digit_neq; [reflexivity | exact Hx]).
    rewrite (IH H). reflexivity. Qed.

Lemma split_dot_none ip : digits ip -> split_dot ip = (ip, None).
Proof. induction ip as [|x ip IH]; intros H; cbn [split_dot]; [reflexivity|].
  unfold digits in H. cbn in H. apply andb_true_iff in H. destruct H as [Hx H].
  assert ((x =? dot) = false) as -> by (rewrite N.eqb_sym; apply digit_neq; [reflexivity | exact Hx]).
  rewrite (IH H). reflexivity. Qed.

(** * grouping is a partition of the digits *)
Lemma group_rev_concat : forall fuel r size meth, (0 < size)%nat -> (length r < fuel)%nat ->
  concat (rev (group_rev r size meth fuel)) = rev r.
Proof. induction fuel as [|f IH]; intros r size meth Hs Hf; [lia|]. cbn [group_rev].
  destruct r as [|x r']; [reflexivity|]. set (r := x :: r') in *.
  assert (Hrest : (length (skipn size r) < f)%nat).
  { rewrite skipn_length. unfold r in *. cbn [length] in *. lia. }
  assert (Hsplit : rev r = rev (skipn size r) ++ rev (firstn size r)).
  { rewrite <- rev_app_distr, firstn_skipn. reflexivity. }
  destruct meth as [|m ms]; cbn [rev]; rewrite concat_app; cbn [concat]; rewrite app_nil_r, Hsplit; f_equal.
  - apply IH; assumption.
  - apply IH; [destruct (Nat.ltb_spec 0 m); lia | exact Hrest].
Qed.

Lemma In_firstn {A} (y : A) n l : In y (firstn n l) -> In y l.
Proof. intros H. rewrite <- (firstn_skipn n l). apply in_or_app. left; exact H. Qed.
Lemma In_skipn {A} (y : A) n l : In y (skipn n l) -> In y l.
Proof. intros H. rewrite <- (firstn_skipn n l). apply in_or_app. right; exact H. Qed.

Lemma group_rev_digits : forall fuel r size meth g, digits r -> In g (group_rev r size meth fuel) -> digits g.
Proof. induction fuel as [|f IH]; intros r size meth g Hr Hg; [destruct Hg|]. cbn [group_rev] in Hg.
  destruct r as [|x r']; [destruct Hg|]. set (r := x :: r') in *.
  assert (Hd1 : digits (rev (firstn size r))).
  { unfold digits in *. rewrite forallb_forall in *. intros y Hy. apply in_rev in Hy. apply Hr. eapply In_firstn; exact Hy. }
  assert (Hd2 : digits (skipn size r)).
  { unfold digits in *. rewrite forallb_forall in *. intros y Hy. apply Hr. eapply In_skipn; exact Hy. }
  destruct meth as [|m ms]; destruct Hg as [<-|Hg]; try exact Hd1; eapply IH; eassumption.
Qed.

(* removing the separator from the joined groups gives their concatenation *)
Lemma remove_sep_join s groups : is_digit s = false -> (forall g, In g groups -> digits g) ->
  flat_map (fun y => if s =? y then [] else [y]) (join [s] groups) = concat groups.
Proof. intros Hs. induction groups as [|g gs IH]; intros Hg; [reflexivity|].
  assert (Hgd : digits g) by (apply Hg; left; reflexivity).
  assert (Hrest : forall x, In x gs -> digits x) by (intros x Hx; apply Hg; right; exact Hx).
  destruct gs as [|g2 gs'].
  - cbn [join concat]. rewrite app_nil_r. apply flat_map_id_when. apply digits_avoid; assumption.
  - change (join [s] (g :: g2 :: gs')) with (g ++ [s] ++ join [s] (g2 :: gs')).
    rewrite !flat_map_app. cbn [concat]. f_equal.
    + apply flat_map_id_when. apply digits_avoid; assumption.
    + cbn [flat_map]. rewrite N.eqb_refl. cbn [app]. apply IH. exact Hrest.
Qed.

Lemma join_digits_or_sep s groups y : (forall g, In g groups -> digits g) -> In y (join [s] groups) -> is_digit y = true \/ y = s.
Proof. induction groups as [|g gs IH]; intros Hg Hy; [destruct Hy|].
  assert (Hgd : digits g) by (apply Hg; left; reflexivity).
  destruct gs as [|g2 gs'].
  - cbn in Hy. left. unfold digits in Hgd. rewrite forallb_forall in Hgd. apply Hgd. exact Hy.
  - change (join [s] (g :: g2 :: gs')) with (g ++ [s] ++ join [s] (g2 :: gs')) in Hy.
    rewrite !in_app_iff in Hy. destruct Hy as [Hy|[[<-|[]]|Hy]].
    + left. unfold digits in Hgd. rewrite forallb_forall in Hgd. apply Hgd. exact Hy.
    + right. reflexivity.
    + apply IH; [intros x Hx; apply Hg; right; exact Hx | exact Hy].
Qed.

(** * The round trip *)
Definition numeral (ip : str) (fp : option str) : str := ip ++ match fp with Some f => dot :: f | None => [] end.
Definition fp_digits (fp : option str) : Prop := match fp with Some f => digits f | None => True end.

Definition loc_ok (loc : locale) : bool :=
  match decimal_point loc with
  | [d] => negb (is_digit d) &&
           match grouping_sep loc with
           | [] => true
           | [s] => negb (is_digit s) && negb (s =? d) &&
                    match grouping_method loc with [] => true | m :: _ => Nat.ltb 0 m end
           | _ => false
           end
  | _ => false
  end.

Lemma numeral_chars ip fp y : digits ip -> fp_digits fp -> In y (numeral ip fp) -> is_digit y = true \/ y = dot.
Proof. intros Hi Hf Hy. unfold numeral in Hy. apply in_app_iff in Hy. destruct Hy as [Hy|Hy].
  - left. unfold digits in Hi. rewrite forallb_forall in Hi. apply Hi. exact Hy.
  - destruct fp as [f|]; [|destruct Hy]. destruct Hy as [<-|Hy]; [right; reflexivity|].
    left. cbn in Hf. unfold digits in Hf. rewrite forallb_forall in Hf. apply Hf. exact Hy. Qed.

Lemma numeral_allowed ip fp : digits ip -> fp_digits fp -> forallb allowed_not_r (numeral ip fp) = true.
Proof. intros Hi Hf. apply forallb_forall. intros y Hy. destruct (numeral_chars ip fp y Hi Hf Hy) as [H| ->].
  - unfold allowed_not_r. rewrite H. reflexivity.
  - reflexivity. Qed.

Lemma numeral_dots ip fp : digits ip -> fp_digits fp -> (count_c dot (numeral ip fp) <= 1)%nat.
Proof. intros Hi Hf. unfold numeral. rewrite count_c_app, (count_c_digits dot ip eq_refl Hi).
  destruct fp as [f|]; [|cbn; lia]. cbn [count_c]. rewrite N.eqb_refl. cbn in Hf. rewrite (count_c_digits dot f eq_refl Hf). lia. Qed.

Lemma numeral_without_dots ip fp : digits ip -> fp_digits fp ->
  digits (filter (fun c => negb (c =? dot)) (numeral ip fp)).
Proof. intros Hi Hf. unfold digits. apply forallb_forall. intros y Hy. apply filter_In in Hy. destruct Hy as [Hy Hn].
  destruct (numeral_chars ip fp y Hi Hf Hy) as [H| ->]; [exact H|]. rewrite N.eqb_refl in Hn. discriminate. Qed.

Lemma str_in_nil s : str_in [] s = true.
Proof. unfold str_in. cbn [contains]. destruct s; reflexivity. Qed.

Lemma contains_single_digits c : forall s fuel, is_digit c = false -> digits s -> contains [c] s fuel = false.
Proof. induction s as [|x s IH]; intros fuel Hc Hs; destruct fuel as [|f]; try reflexivity.
  unfold digits in Hs. cbn [forallb] in Hs. apply andb_true_iff in Hs. destruct Hs as [Hx Hs].
  cbn [contains startswith]. rewrite (digit_neq c x Hc Hx). cbn [andb orb]. apply IH; assumption. Qed.

Lemma split_numeral ip fp : digits ip -> split_dot (numeral ip fp) = (ip, fp).
Proof. intros Hi. unfold numeral. destruct fp as [f|]; [apply split_dot_app; exact Hi | rewrite app_nil_r; apply split_dot_none; exact Hi]. Qed.

(* what formatnum writes for the integer part: the digits with separators in between *)
Lemma format_int_props loc s ip : is_digit s = false -> digits ip ->
  match grouping_method loc with [] => True | m :: _ => (0 < m)%nat end ->
  flat_map (fun y => if s =? y then [] else [y]) (format_int loc [s] ip) = ip /\
  (forall y, In y (format_int loc [s] ip) -> is_digit y = true \/ y = s).
Proof. intros Hs Hi Hm. unfold format_int. destruct (grouping_method loc) as [|m ms].
  - split; [apply flat_map_id_when; apply digits_avoid; assumption|].
    intros y Hy. left. unfold digits in Hi. rewrite forallb_forall in Hi. apply Hi. exact Hy.
  - assert (Hrd : digits (rev ip)).
    { unfold digits in *. rewrite forallb_forall in *. intros y Hy. apply Hi. apply in_rev. exact Hy. }
    assert (Hg : forall g, In g (rev (group_rev (rev ip) m ms (S (length ip)))) -> digits g).
    { intros g Hgi. apply in_rev in Hgi. eapply group_rev_digits; eassumption. }
    split.
    + rewrite (remove_sep_join s _ Hs Hg). rewrite group_rev_concat; [apply rev_involutive | exact Hm | rewrite rev_length; lia].
    + intros y Hy. eapply join_digits_or_sep; eassumption.
Qed.

Lemma flat_map_tail (c : N) new ip t : forallb (fun y => negb (c =? y)) t = true ->
  flat_map (fun y => if c =? y then new else [y]) (ip ++ t) = flat_map (fun y => if c =? y then new else [y]) ip ++ t.
Proof. intros H. rewrite flat_map_app. f_equal. apply flat_map_id_when. exact H. Qed.

Theorem formatnum_roundtrip loc ip fp :
  loc_ok loc = true -> digits ip -> fp_digits fp -> numeral ip fp <> [] ->
  formatnum_reverse loc (formatnum loc (numeral ip fp)) = numeral ip fp.
Proof. intros Hok Hi Hf Hne. unfold loc_ok in Hok.
  destruct (decimal_point loc) as [|d [|d2 dr]] eqn:Ed; try discriminate.
  apply andb_true_iff in Hok. destruct Hok as [Hd Hok]. apply negb_true_iff in Hd.
  set (arg0 := numeral ip fp) in *.
  assert (Hallowed := numeral_allowed ip fp Hi Hf).
  assert (Hdots := numeral_dots ip fp Hi Hf).
  assert (Hnodot := numeral_without_dots ip fp Hi Hf).
  fold arg0 in Hallowed, Hdots, Hnodot.
  (* first part of formatnum *)
  assert (Hhead : (match arg0 with [] => true | _ :: _ => false end || negb (forallb allowed_not_r arg0)
                   || Nat.ltb 1 (count_c dot arg0)) = false).
  { destruct arg0 as [|a0 ar] eqn:Ea; [congruence|]. rewrite Hallowed. cbn [negb orb].
    destruct (Nat.ltb_spec 1 (count_c dot (a0 :: ar))); [lia | reflexivity]. }
  destruct (grouping_sep loc) as [|s [|s2 sr]] eqn:Es; try discriminate.
  - (* no separator: formatnum returns its argument *)
    assert (Hfmt : formatnum loc arg0 = arg0).
    { unfold formatnum. rewrite Hhead, Es, str_in_nil. reflexivity. }
    rewrite Hfmt. unfold formatnum_reverse. rewrite Ed, Es.
    destruct (match arg0 with [] => true | _ :: _ => false end || negb (forallb (allowed_r loc) arg0)
              || Nat.ltb 1 (count_sub [d] arg0 (S (length arg0)))) eqn:Eh; [reflexivity|].
    cbn [str_eqb]. rewrite replace_fn_single.
    apply orb_false_iff in Eh. destruct Eh as [Eh _]. apply orb_false_iff in Eh. destruct Eh as [_ Hall].
    apply negb_false_iff in Hall.
    destruct (N.eqb_spec d dot) as [->|Hdd]; [apply flat_map_same|].
    apply flat_map_id_when. apply forallb_forall. intros y Hy.
    destruct (numeral_chars ip fp y Hi Hf Hy) as [Hy1| ->].
    + rewrite (digit_neq d y Hd Hy1). reflexivity.
    + (* a dot in the argument is not an allowed character for this locale *)
      rewrite forallb_forall in Hall. specialize (Hall dot Hy). unfold allowed_r in Hall. rewrite Ed, Es in Hall.
      cbn [existsb str_eqb andb orb] in Hall. change (is_digit dot) with false in Hall. cbn [orb] in Hall.
      rewrite !orb_false_r in Hall. apply N.eqb_eq in Hall. exfalso. apply Hdd. symmetry. exact Hall.
  - (* one-character separator *)
    apply andb_true_iff in Hok. destruct Hok as [Hok Hm]. apply andb_true_iff in Hok. destruct Hok as [Hs Hsd].
    apply negb_true_iff in Hs. apply negb_true_iff in Hsd.
    assert (Hm' : match grouping_method loc with [] => True | m :: _ => (0 < m)%nat end).
    { destruct (grouping_method loc); [exact I | apply Nat.ltb_lt; exact Hm]. }
    destruct (format_int_props loc s ip Hs Hi Hm') as [HG1 HG2]. set (G := format_int loc [s] ip) in *.
    set (tail := match fp with Some f => [d] ++ f | None => [] end).
    assert (Hfmt : formatnum loc arg0 = G ++ tail).
    { unfold formatnum. rewrite Hhead, Es. unfold str_in.
      rewrite (contains_single_digits s _ _ Hs Hnodot). unfold arg0. rewrite (split_numeral ip fp Hi), Ed. reflexivity. }
    rewrite Hfmt. clear Hfmt. clearbody G.
    assert (Htail_s : forallb (fun y => negb (s =? y)) tail = true).
    { unfold tail. destruct fp as [f|]; [|reflexivity]. cbn [app forallb]. rewrite Hsd. cbn [negb andb].
      apply digits_avoid; [exact Hs | exact Hf]. }
    assert (HGd : forallb (fun y => negb (d =? y)) G = true).
    { apply forallb_forall. intros y Hy. destruct (HG2 y Hy) as [Hy1| ->].
      - rewrite (digit_neq d y Hd Hy1). reflexivity.
      - rewrite N.eqb_sym, Hsd. reflexivity. }
    assert (Hip_d : forallb (fun y => negb (d =? y)) ip = true) by (apply digits_avoid; assumption).
    assert (Htail_d : flat_map (fun y => if d =? y then [dot] else [y]) tail = match fp with Some f => dot :: f | None => [] end).
    { unfold tail. destruct fp as [f|]; [|reflexivity]. cbn [app flat_map]. rewrite N.eqb_refl. cbn [app]. f_equal.
      apply flat_map_id_when. apply digits_avoid; [exact Hd | exact Hf]. }
    unfold formatnum_reverse. rewrite Ed, Es.
    (* the guard of formatnum_reverse *)
    assert (Hguard : (match G ++ tail with [] => true | _ :: _ => false end || negb (forallb (allowed_r loc) (G ++ tail))
                      || Nat.ltb 1 (count_sub [d] (G ++ tail) (S (length (G ++ tail))))) = false).
    { assert (Hne2 : G ++ tail <> []).
      { intros E. apply app_eq_nil in E. destruct E as [EG Et].
        assert (Hip0 : ip = []) by (rewrite <- HG1, EG; reflexivity). unfold tail in Et. destruct fp; [discriminate|].
        apply Hne. unfold arg0, numeral. rewrite Hip0. reflexivity. }
      destruct (G ++ tail) as [|g0 gr] eqn:Egt; [congruence|]. rewrite <- Egt. cbn [orb].
      assert (forallb (allowed_r loc) (G ++ tail) = true) as ->.
      { apply forallb_forall. intros y Hy. unfold allowed_r. rewrite Ed, Es. apply in_app_iff in Hy. destruct Hy as [Hy|Hy].
        - destruct (HG2 y Hy) as [H1| ->]; [rewrite H1; reflexivity|]. cbn. rewrite N.eqb_refl. rewrite !orb_true_r. reflexivity.
        - unfold tail in Hy. destruct fp as [f|]; [|destruct Hy]. destruct Hy as [<-|Hy].
          + cbn. rewrite N.eqb_refl. rewrite !orb_true_r. reflexivity.
          + cbn in Hf. unfold digits in Hf. rewrite forallb_forall in Hf. rewrite (Hf y Hy). reflexivity. }
      cbn [negb orb]. rewrite count_sub_single by lia. rewrite count_c_app.
      assert (count_c d G = 0%nat) as ->.
      { clear -HGd. induction G as [|x G IH]; [reflexivity|]. cbn in HGd. apply andb_true_iff in HGd. destruct HGd as [Hx HG].
        cbn [count_c]. apply negb_true_iff in Hx. rewrite N.eqb_sym, Hx. apply IH. exact HG. }
      unfold tail. destruct fp as [f|]; [|reflexivity]. cbn [app count_c]. rewrite N.eqb_refl. cbn in Hf.
      rewrite (count_c_digits d f Hd Hf). reflexivity. }
    rewrite Hguard. cbv zeta. cbv beta iota.
    destruct (str_eqb [s] [160]) eqn:E160.
    + (* French-style: decimal point first, then separators and plain spaces *)
      rewrite !replace_fn_single.
      rewrite flat_map_app, (flat_map_id_when d [dot] G HGd), Htail_d.
      assert (Htl : forallb (fun y => negb (s =? y)) (match fp with Some f => dot :: f | None => [] end) = true).
      { destruct fp as [f|]; [|reflexivity]. cbn [forallb].
        assert ((s =? dot) = false) as ->.
        { cbn in E160. rewrite andb_true_r in E160. apply N.eqb_eq in E160. rewrite E160. reflexivity. }
        cbn [negb andb]. apply digits_avoid; [exact Hs | exact Hf]. }
      rewrite (flat_map_tail s [] G _ Htl), HG1.
      apply flat_map_id_when. apply forallb_forall. intros y Hy.
      destruct (numeral_chars ip fp y Hi Hf Hy) as [Hy1| ->]; [rewrite (digit_neq 32 y eq_refl Hy1)|]; reflexivity.
    + rewrite !replace_fn_single. rewrite (flat_map_tail s [] G tail Htail_s), HG1.
      rewrite flat_map_app, (flat_map_id_when d [dot] ip Hip_d), Htail_d. reflexivity.
Qed.
