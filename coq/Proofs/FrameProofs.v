From Coq Require Import List NArith Bool Arith Lia.
From WTP Require Import Base.Str Proofs.StrProofs Model.ArgViews Proofs.ArgViewsProofs.
Import ListNotations.
Open Scope N_scope.

(** frame:expandTemplate{title, args} builds the call's arguments as "k=v" texts
    (luaexec.py expandTemplate); what the expander then binds is exactly the
    given table with trimmed values. *)
Lemma split_eq_app kt v : ~ In eqc kt -> split_eq (kt ++ eqc :: v) = Some (kt, v).
Proof. induction kt as [|c kt IH]; intros H; cbn [app split_eq].
  - rewrite N.eqb_refl. reflexivity.
  - destruct (N.eqb_spec c eqc) as [->|Hc]; [exfalso; apply H; left; reflexivity|].
    rewrite IH by (intros Hi; apply H; right; exact Hi). reflexivity. Qed.

Definition name_key (kt : str) : key :=
  if positive_number kt then KInt (to_num kt) else KStr (strip_by sp_py (collapse_ws kt)).

Definition kt_ok (kt : str) : Prop :=
  ~ In eqc kt /\ strip_by sp_py kt = kt /\ kt <> [] /\ forallb cls_expander kt = true.

Theorem expand_template_args l : Forall (fun p => kt_ok (fst p)) l -> forall num,
  view_expander (map (fun p => fst p ++ eqc :: snd p) l) num
  = map (fun p => (name_key (fst p), strip_by sp_py (snd p))) l.
Proof. induction 1 as [|[kt v] l (Hne & Hs & Hnn & Hc) _ IH]; intros num; [reflexivity|].
  cbn [fst snd] in *. cbn [map fst snd view_expander].
  rewrite (split_named_ok cls_expander _ kt v (split_eq_app kt v Hne)) by (rewrite Hs; assumption).
  rewrite Hs, IH. reflexivity. Qed.

(* non-vacuity: {[1]=" a ", k="b"} *)
Example expand_template_example :
  view_expander (map (fun p => fst p ++ eqc :: snd p) [([49], [32;97;32]); ([107], [98])]) 1
  = [(KInt 1, [97]); (KStr [107], [98])].
Proof. reflexivity. Qed.
