(** C18: the string functions #pos, #rpos, #explode and #replace of
    Model/ParserFns.v (transcriptions of pos_fn, rpos_fn, explode_fn,
    replace_fn, tied to the code by C18's check on every call) against
    definitions that do not mention how they are computed: first and last
    occurrence, "joining the pieces gives the string back", and
    "replacing is splitting and joining with the new text". *)
From Coq Require Import List NArith Bool Arith Lia.
From WTP Require Import Base.Str Proofs.StrProofs Model.ParserFns.
Import ListNotations.
Open Scope N_scope.

Lemma skipn_skipn {A} : forall (x y : nat) (l : list A), skipn x (skipn y l) = skipn (x + y) l.
Proof.
  intros x y. revert x. induction y as [|y IH]; intros x l; [rewrite Nat.add_0_r; reflexivity|].
  destruct l as [|a l]; [rewrite !skipn_nil; reflexivity|]. rewrite Nat.add_succ_r. cbn [skipn]. apply IH.
Qed.

(* [needle] occurs in [s] at position [k] *)
Definition occurs (needle s : str) (k : nat) : bool := startswith needle (skipn k s).

(** ** #pos: the first occurrence at or after the offset *)
Lemma find_at_some needle : forall fuel s i j,
  find_at needle s i fuel = Some j ->
  (i <= j)%nat /\ occurs needle s (j - i) = true /\ forall k, (k < j - i)%nat -> occurs needle s k = false.
Proof.
  induction fuel as [|f IH]; intros s i j H; destruct s as [|c r]; cbn [find_at] in H; try discriminate.
  - destruct (startswith needle []) eqn:E; [|discriminate].
    inversion H; subst. replace (j - j)%nat with 0%nat by lia. repeat split; [lia | exact E | intros k Hk; lia].
  - destruct (startswith needle (c :: r)) eqn:E.
    + inversion H; subst. replace (j - j)%nat with 0%nat by lia. repeat split; [lia | exact E | intros k Hk; lia].
    + destruct (IH r (S i) j H) as (Hle & Hocc & Hmin).
      repeat split; [lia | |].
      * replace (j - i)%nat with (S (j - S i)) by lia. exact Hocc.
      * intros k Hk. destruct k as [|k]; [exact E|]. unfold occurs. cbn [skipn]. apply Hmin. lia.
Qed.

Lemma find_at_none needle : forall fuel s i,
  (length s < fuel)%nat -> find_at needle s i fuel = None -> forall k, occurs needle s k = false.
Proof.
  induction fuel as [|f IH]; intros s i Hf H k; [lia|]. destruct s as [|c r]; cbn [find_at] in H.
  - destruct (startswith needle []) eqn:E; [discriminate|]. unfold occurs. destruct k; exact E.
  - destruct (startswith needle (c :: r)) eqn:E; [discriminate|].
    destruct k as [|k]; [exact E|]. unfold occurs. cbn [skipn]. apply (IH r (S i)); [cbn in Hf; lia | exact H].
Qed.

Theorem pos_is_the_first_occurrence needle s offset j :
  find_from needle s offset = Some j ->
  (offset <= j)%nat /\ occurs needle s j = true /\ forall k, (offset <= k < j)%nat -> occurs needle s k = false.
Proof.
  unfold find_from. destruct (Nat.ltb (length s) offset) eqn:El; [discriminate|]. intros H.
  destruct (find_at_some needle _ _ _ _ H) as (Hle & Hocc & Hmin).
  assert (Hsk : forall k, occurs needle (skipn offset s) k = occurs needle s (offset + k)).
  { intros k. unfold occurs. rewrite skipn_skipn. f_equal. f_equal. lia. }
  repeat split; [exact Hle | |].
  - rewrite Hsk in Hocc. replace (offset + (j - offset))%nat with j in Hocc by lia. exact Hocc.
  - intros k Hk. specialize (Hmin (k - offset)%nat ltac:(lia)). rewrite Hsk in Hmin.
    replace (offset + (k - offset))%nat with k in Hmin by lia. exact Hmin.
Qed.

Theorem pos_absent_means_no_occurrence needle s offset :
  (offset <= length s)%nat -> find_from needle s offset = None -> forall k, (offset <= k)%nat -> occurs needle s k = false.
Proof.
  unfold find_from. intros Ho. apply Nat.ltb_ge in Ho. rewrite Ho. intros H k Hk.
  assert (Hlen : (length (skipn offset s) < S (length s))%nat) by (rewrite skipn_length; lia).
  assert (Hn := find_at_none needle (S (length s)) (skipn offset s) offset Hlen H (k - offset)%nat).
  unfold occurs in *. rewrite skipn_skipn in Hn. replace (k - offset + offset)%nat with k in Hn by lia. exact Hn.
Qed.

(** ** #rpos: the last occurrence at or after the offset *)
Lemma rfind_at_spec needle : needle <> [] -> forall fuel s i best,
  (length s < fuel)%nat ->
  match rfind_at needle s i fuel best with
  | Some j => (exists k, j = (i + k)%nat /\ occurs needle s k = true /\ forall k', (k < k')%nat -> occurs needle s k' = false)
              \/ (rfind_at needle s i fuel best = best /\ forall k, occurs needle s k = false)
  | None => best = None /\ forall k, occurs needle s k = false
  end.
Proof.
  intros Hne. induction fuel as [|f IH]; intros s i best Hf; [lia|].
  destruct s as [|c r]; cbn [rfind_at].
  - destruct (startswith needle []) eqn:E.
    + destruct needle; [contradiction Hne; reflexivity | discriminate E].
    + assert (Hno : forall k, occurs needle [] k = false) by (intros k; unfold occurs; destruct k; exact E).
      destruct best as [b|]; [right; split; [reflexivity | exact Hno] | split; [reflexivity | exact Hno]].
  - set (best' := if startswith needle (c :: r) then Some i else best).
    specialize (IH r (S i) best' ltac:(cbn in Hf; lia)).
    destruct (rfind_at needle r (S i) f best') as [j|] eqn:Er.
    + destruct IH as [(k & Hj & Hocc & Hmax) | (Heq & Hno)].
      * left. exists (S k). repeat split; [lia | exact Hocc |].
        intros k' Hk'. destruct k' as [|k']; [lia|]. unfold occurs. cbn [skipn]. apply Hmax. lia.
      * unfold best' in Heq. destruct (startswith needle (c :: r)) eqn:E.
        -- left. exists 0%nat. inversion Heq; subst. repeat split; [lia | exact E |].
           intros k' Hk'. destruct k' as [|k']; [lia|]. unfold occurs. cbn [skipn]. apply Hno.
        -- right. split; [exact Heq|]. intros k. destruct k as [|k]; [exact E|]. unfold occurs. cbn [skipn]. apply Hno.
    + destruct IH as [Hb Hno]. unfold best' in Hb. destruct (startswith needle (c :: r)) eqn:E; [discriminate|].
      split; [exact Hb|]. intros k. destruct k as [|k]; [exact E|]. unfold occurs. cbn [skipn]. apply Hno.
Qed.

Theorem rpos_is_the_last_occurrence needle s offset j :
  needle <> [] ->
  rfind_from needle s offset = Some j ->
  (offset <= j)%nat /\ occurs needle s j = true /\ forall k, (j < k)%nat -> occurs needle s k = false.
Proof.
  intros Hne. unfold rfind_from. destruct (Nat.ltb (length s) offset) eqn:El; [discriminate|]. intros H.
  apply Nat.ltb_ge in El.
  assert (Hlen : (length (skipn offset s) < S (length s))%nat) by (rewrite skipn_length; lia).
  assert (Hs := rfind_at_spec needle Hne (S (length s)) (skipn offset s) offset None Hlen).
  rewrite H in Hs.
  assert (Hsk : forall k, occurs needle (skipn offset s) k = occurs needle s (offset + k)).
  { intros k. unfold occurs. rewrite skipn_skipn. f_equal. f_equal. lia. }
  destruct Hs as [(k & Hj & Hocc & Hmax) | (Heq & _)]; [|discriminate Heq].
  subst j. repeat split; [lia | rewrite <- Hsk; exact Hocc |].
  intros k' Hk'. specialize (Hmax (k' - offset)%nat ltac:(lia)). rewrite Hsk in Hmax.
  replace (offset + (k' - offset))%nat with k' in Hmax by lia. exact Hmax.
Qed.

(** ** #explode and #replace *)
Lemma split_on_nonempty delim : forall fuel s cur, split_on delim s cur fuel <> [].
Proof.
  induction fuel as [|f IH]; intros s cur; cbn [split_on]; [discriminate|].
  destruct s as [|c r]; [discriminate|]. destruct (startswith delim (c :: r)); [discriminate | apply IH].
Qed.

Lemma join_cons sep x l : l <> [] -> ParserFns.join sep (x :: l) = x ++ sep ++ ParserFns.join sep l.
Proof. destruct l; [intros H; contradiction H; reflexivity | reflexivity]. Qed.

Lemma startswith_split delim s : startswith delim s = true -> s = delim ++ skipn (length delim) s.
Proof.
  intros H. apply startswith_spec in H. destruct H as [r Hr]. subst s. rewrite skipn_app_exact. reflexivity.
Qed.

(* joining the pieces with the delimiter gives the string back *)
Lemma join_split_on delim : delim <> [] -> forall fuel s cur,
  (length s < fuel)%nat -> ParserFns.join delim (split_on delim s cur fuel) = rev cur ++ s.
Proof.
  intros Hd. induction fuel as [|f IH]; intros s cur Hf; [lia|]. cbn [split_on].
  destruct s as [|c r]; [cbn; rewrite app_nil_r; reflexivity|].
  destruct (startswith delim (c :: r)) eqn:E.
  - rewrite join_cons by apply split_on_nonempty.
    assert (Hs := startswith_split delim (c :: r) E).
    assert (Hl : (length (skipn (length delim) (c :: r)) < f)%nat).
    { rewrite skipn_length. destruct delim; [contradiction Hd; reflexivity|]. cbn in *. lia. }
    rewrite (IH _ [] Hl). cbn [rev app]. rewrite <- Hs. reflexivity.
  - rewrite (IH r (c :: cur)) by (cbn in Hf; lia). cbn [rev]. rewrite <- app_assoc. reflexivity.
Qed.

Theorem explode_pieces_join_back s delim :
  delim <> [] -> ParserFns.join delim (split_fn s delim) = s.
Proof. intros Hd. unfold split_fn. rewrite (join_split_on delim Hd) by lia. reflexivity. Qed.

(* replacing [old] by [new] is splitting at [old] and joining with [new] *)
Lemma replace_is_join_split_on old new : old <> [] -> forall fuel s cur,
  (length s < fuel)%nat -> ParserFns.join new (split_on old s cur fuel) = rev cur ++ replace_all old new s fuel.
Proof.
  intros Ho. induction fuel as [|f IH]; intros s cur Hf; [lia|]. cbn [split_on replace_all].
  destruct s as [|c r]; [cbn; rewrite app_nil_r; reflexivity|].
  destruct (startswith old (c :: r)) eqn:E.
  - rewrite join_cons by apply split_on_nonempty.
    assert (Hl : (length (skipn (length old) (c :: r)) < f)%nat).
    { rewrite skipn_length. destruct old; [contradiction Ho; reflexivity|]. cbn in *. lia. }
    rewrite (IH _ [] Hl). reflexivity.
  - rewrite (IH r (c :: cur)) by (cbn in Hf; lia). cbn [rev]. rewrite <- app_assoc. reflexivity.
Qed.

Theorem replace_is_split_then_join s old new :
  old <> [] -> replace_fn s old new = ParserFns.join new (split_fn s old).
Proof.
  intros Ho. unfold replace_fn, split_fn. rewrite (replace_is_join_split_on old new Ho) by lia. reflexivity.
Qed.

(* ... so replacing something by itself changes nothing *)
Corollary replace_by_itself s old : old <> [] -> replace_fn s old old = s.
Proof. intros Ho. rewrite replace_is_split_then_join by exact Ho. apply explode_pieces_join_back. exact Ho. Qed.
