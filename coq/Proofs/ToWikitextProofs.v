From Coq Require Import List NArith Bool Lia.
From WTP Require Import Base.Str Model.ToWikitext.
Import ListNotations.
Open Scope N_scope.

Lemma next_is_protect c r : next_is c (protect r) = next_is c r.
Proof. destruct r; reflexivity. Qed.

Lemma no_double_ni_app r : no_double (ni ++ r) = no_double r.
Proof. reflexivity. Qed.

Theorem protect_no_double s : no_double (protect s) = true.
Proof. induction s as [|c r IH]; [reflexivity|]. cbn [protect].
  destruct (is_br c && next_is c r) eqn:E.
  - (* marker inserted: c is followed by '<' *)
    cbn [no_double]. change (next_is c (ni ++ protect r)) with (60 =? c).
    apply andb_true_iff in E. destruct E as [Hb _]. unfold is_br in Hb.
    assert (Hc : (60 =? c) = false).
    { apply orb_true_iff in Hb. destruct Hb as [H|H]; apply N.eqb_eq in H; subst; reflexivity. }
    rewrite Hc, andb_false_r. cbn [negb andb]. rewrite no_double_ni_app. exact IH.
  - cbn [app no_double]. rewrite next_is_protect, E. cbn [negb andb]. exact IH.
Qed.

(* the protection only inserts markers: erasing them by position gives the text back *)
Fixpoint unprotect (s : str) (orig : str) : str :=
  match orig with
  | [] => []
  | c :: r => match s with
              | x :: s' => x :: unprotect (if is_br c && next_is c r then skipn (length ni) s' else s') r
              | [] => []
              end
  end.

Theorem unprotect_protect s : unprotect (protect s) s = s.
Proof. induction s as [|c r IH]; [reflexivity|]. cbn [protect unprotect].
  destruct (is_br c && next_is c r); cbn [app]; f_equal.
  - change (skipn (length ni) (ni ++ protect r)) with (protect r). exact IH.
  - exact IH.
Qed.
