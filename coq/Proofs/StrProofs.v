From Coq Require Import List NArith Bool Arith Lia.
From WTP Require Import Base.Str.
Import ListNotations.
Open Scope N_scope.

Lemma str_eqb_eq a b : str_eqb a b = true <-> a = b.
Proof. revert b. induction a as [|x a IH]; intros [|y b]; cbn [str_eqb]; split; intros H;
  try reflexivity; try discriminate.
  - apply andb_true_iff in H. destruct H as [H1 H2]. apply N.eqb_eq in H1. apply IH in H2. now subst.
  - inversion H; subst. apply andb_true_iff. split; [apply N.eqb_refl | apply IH; reflexivity]. Qed.

Lemma str_eqb_refl a : str_eqb a a = true.
Proof. apply str_eqb_eq. reflexivity. Qed.

Lemma str_eqb_neq a b : str_eqb a b = false <-> a <> b.
Proof. rewrite <- str_eqb_eq. destruct (str_eqb a b); split; congruence. Qed.

Lemma startswith_app p s : startswith p (p ++ s) = true.
Proof. induction p as [|x p IH]; cbn; [reflexivity|]. now rewrite N.eqb_refl, IH. Qed.

Lemma startswith_spec p s : startswith p s = true <-> exists r, s = p ++ r.
Proof. revert s. induction p as [|x p IH]; intros s; cbn [startswith].
  - split; [intros _; exists s; reflexivity | reflexivity].
  - destruct s as [|y s]; [split; [discriminate | intros [r Hr]; discriminate]|].
    rewrite andb_true_iff, N.eqb_eq, IH. split.
    + intros [-> [r ->]]. exists r. reflexivity.
    + intros [r Hr]. inversion Hr; subst. split; [reflexivity | exists r; reflexivity]. Qed.

Lemma skipn_app_exact {A} (p s : list A) : skipn (length p) (p ++ s) = s.
Proof. induction p; cbn; auto. Qed.

Lemma lower_app a b : lower (a ++ b) = lower a ++ lower b.
Proof. apply map_app. Qed.

Lemma replace_c_app x y a b : replace_c x y (a ++ b) = replace_c x y a ++ replace_c x y b.
Proof. apply map_app. Qed.

Lemma replace_c_idem x y s : x <> y -> replace_c x y (replace_c x y s) = replace_c x y s.
Proof. intros Hxy. unfold replace_c. rewrite map_map. apply map_ext. intros c.
  destruct (N.eqb_spec c x) as [->|Hc].
  - destruct (N.eqb_spec y x); congruence.
  - destruct (N.eqb_spec c x); congruence. Qed.

Lemma replace_c_none x y s : ~ In x s -> replace_c x y s = s.
Proof. induction s as [|c s IH]; cbn; intros H; [reflexivity|].
  destruct (N.eqb_spec c x) as [->|Hc]; [exfalso; apply H; left; reflexivity|].
  f_equal. apply IH. intros Hi; apply H; right; exact Hi. Qed.
