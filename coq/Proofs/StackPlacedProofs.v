(** The list and table clauses of well-formedness (C01) as an invariant of
    GUARDED sequences of the parser's primitive stack operations
    (Model/Stack.v: guard, run_guarded): when every push is onto a permitted
    parent and no text goes into a LIST node, then - whatever else the handlers
    do - list items sit directly under lists, lists hold nothing but list
    items, rows and captions sit directly under tables and cells directly under
    rows, at every depth. *)
From Coq Require Import List Bool NArith Lia.
Import ListNotations.
From WTP Require Import Model.Tree Model.Stack Proofs.StackProofs.

Section Placed.
  Variable fin : text -> text.
  Variable magic : N -> bool.

  Notation merge := (merge fin).
  Notation merged := (merged fin).
  Notation step := (step fin magic).
  Notation run_guarded := (run_guarded fin magic).
  Notation finale := (finale fin magic).
  Notation result := (result fin).
  Notation close_frame := (close_frame fin).

  Definition is_list (k : kind) : bool := kind_eqb k LIST.

  (** every node of the list [l], which hangs under a node of kind [p], is where it may be - and so on below *)
  Inductive PlacedN : node -> Prop :=
  | PN : forall k largs ch head defn,
      PlacedL k ch -> PlacedLL k largs -> PlacedO k head -> PlacedO k defn -> PlacedN (Nd k largs ch head defn)
  with PlacedL : kind -> list item -> Prop :=
  | PL_nil : forall p, PlacedL p []
  | PL_str : forall p s r, is_list p = false -> PlacedL p r -> PlacedL p (IStr s :: r)
  | PL_node : forall p n r, placed_ok p (node_kind n) = true -> PlacedN n -> PlacedL p r -> PlacedL p (INode n :: r)
  with PlacedLL : kind -> list (list item) -> Prop :=
  | PLL_nil : forall p, PlacedLL p []
  | PLL_cons : forall p l r, PlacedL p l -> PlacedLL p r -> PlacedLL p (l :: r)
  with PlacedO : kind -> option (list item) -> Prop :=
  | PO_none : forall p, PlacedO p None
  | PO_some : forall p l, PlacedL p l -> PlacedO p (Some l).

  Definition FramePlaced (f : frame) : Prop :=
    PlacedL (f_kind f) (f_children f) /\ PlacedLL (f_kind f) (f_largs f) /\ PlacedO (f_kind f) (f_head f).

  (* each open node is itself where it may be, under the open node below it *)
  Fixpoint frames_placed (st : stack) : Prop :=
    match st with
    | f :: r => match r with p :: _ => placed_ok (f_kind p) (f_kind f) = true /\ frames_placed r | [] => True end
    | [] => True
    end.

  Definition PInv (st : stack) : Prop := Forall FramePlaced st /\ frames_placed st.

  Definition PlacedRoot (t : node) : Prop := PlacedN t.

  (* ---------- kinds ---------- *)
  Lemma placed_parent_irrelevant : forall p q k,
    kind_eqb p LIST = kind_eqb q LIST -> kind_eqb p TABLE = kind_eqb q TABLE -> kind_eqb p TABLE_ROW = kind_eqb q TABLE_ROW ->
    placed_ok p k = placed_ok q k.
  Proof. intros p q k H1 H2 H3. unfold placed_ok. rewrite H1, H2, H3. reflexivity. Qed.

  Lemma placed_child_fn : forall p, placed_ok p TEMPLATE = placed_ok p PARSER_FN.
  Proof. intros p. unfold placed_ok. reflexivity. Qed.

  Lemma PlacedL_reparent : forall p q l,
    kind_eqb p LIST = kind_eqb q LIST -> kind_eqb p TABLE = kind_eqb q TABLE -> kind_eqb p TABLE_ROW = kind_eqb q TABLE_ROW ->
    PlacedL p l -> PlacedL q l.
  Proof.
    intros p q l H1 H2 H3. induction l as [|x l IH]; intros H; [constructor|].
    inversion H; subst.
    - constructor; [unfold is_list in *; rewrite <- H1; assumption | apply IH; assumption].
    - constructor; [rewrite <- (placed_parent_irrelevant p q _ H1 H2 H3); assumption | assumption | apply IH; assumption].
  Qed.

  Lemma PlacedLL_reparent : forall p q ll,
    kind_eqb p LIST = kind_eqb q LIST -> kind_eqb p TABLE = kind_eqb q TABLE -> kind_eqb p TABLE_ROW = kind_eqb q TABLE_ROW ->
    PlacedLL p ll -> PlacedLL q ll.
  Proof.
    intros p q ll H1 H2 H3. induction ll as [|l ll IH]; intros H; [constructor|].
    inversion H; subst. constructor; [apply (PlacedL_reparent p q); assumption | apply IH; assumption].
  Qed.

  Lemma PlacedO_reparent : forall p q o,
    kind_eqb p LIST = kind_eqb q LIST -> kind_eqb p TABLE = kind_eqb q TABLE -> kind_eqb p TABLE_ROW = kind_eqb q TABLE_ROW ->
    PlacedO p o -> PlacedO q o.
  Proof.
    intros p q o H1 H2 H3 H. inversion H; subst; constructor. apply (PlacedL_reparent p q); assumption.
  Qed.

  (* ---------- lists ---------- *)
  Lemma PlacedL_app : forall p a b, PlacedL p a -> PlacedL p b -> PlacedL p (a ++ b).
  Proof.
    induction a as [|x a IH]; intros b Ha Hb; [exact Hb|].
    inversion Ha; subst; simpl; constructor; auto.
  Qed.

  Lemma PlacedLL_app : forall p a b, PlacedLL p a -> PlacedLL p b -> PlacedLL p (a ++ b).
  Proof.
    induction a as [|x a IH]; intros b Ha Hb; [exact Hb|].
    inversion Ha; subst; simpl; constructor; auto.
  Qed.

  Lemma PlacedL_rev : forall p l, PlacedL p l -> PlacedL p (rev l).
  Proof.
    induction l as [|x l IH]; intros H; [constructor|]. simpl.
    inversion H; subst; apply PlacedL_app; auto; repeat constructor; auto.
  Qed.

  (* merging: strings are only made from strings *)
  Lemma flush_placed : forall p acc, (acc <> None -> is_list p = false) -> PlacedL p (flush fin acc).
  Proof.
    intros p [s|] H; simpl; [|constructor].
    destruct (fin s); [constructor|]. constructor; [apply H; discriminate | constructor].
  Qed.

  Lemma merge_placed : forall p l acc, PlacedL p l -> (acc <> None -> is_list p = false) -> PlacedL p (merge l acc).
  Proof.
    induction l as [|x l IH]; intros acc H Hacc; simpl; [apply flush_placed; exact Hacc|].
    inversion H; subst.
    - apply IH; [assumption | intros _; assumption].
    - apply PlacedL_app; [apply flush_placed; exact Hacc|].
      constructor; [assumption | assumption | apply IH; [assumption | intros C; contradiction C; reflexivity]].
  Qed.

  Lemma merged_placed : forall p l, PlacedL p l -> PlacedL p (merged l).
  Proof. intros p l H. apply merge_placed; [exact H | intros C; contradiction C; reflexivity]. Qed.

  (* ---------- closing a node ---------- *)
  Lemma close_frame_placed : forall f semi tofn,
    FramePlaced f -> (tofn = true -> f_kind f = TEMPLATE) -> PlacedN (close_frame f semi tofn).
  Proof.
    intros f semi tofn (Hc & Hl & Hh) Htofn. unfold Stack.close_frame.
    set (k := f_kind f) in *.
    set (k1 := if tofn then PARSER_FN else k).
    assert (R1 : kind_eqb k LIST = kind_eqb k1 LIST) by (unfold k1; destruct tofn; [rewrite (Htofn eq_refl); reflexivity | reflexivity]).
    assert (R2 : kind_eqb k TABLE = kind_eqb k1 TABLE) by (unfold k1; destruct tofn; [rewrite (Htofn eq_refl); reflexivity | reflexivity]).
    assert (R3 : kind_eqb k TABLE_ROW = kind_eqb k1 TABLE_ROW) by (unfold k1; destruct tofn; [rewrite (Htofn eq_refl); reflexivity | reflexivity]).
    assert (Hm : PlacedL k1 (merged (f_children f))) by (apply (PlacedL_reparent k k1); auto; apply merged_placed; assumption).
    assert (Hl1 : PlacedLL k1 (f_largs f)) by (apply (PlacedLL_reparent k k1); auto).
    assert (Hh1 : PlacedO k1 (f_head f)) by (apply (PlacedO_reparent k k1); auto).
    assert (Hlargs : PlacedLL k1 (if is_kind args_kinds k then f_largs f ++ [merged (f_children f)] else f_largs f)).
    { destruct (is_kind args_kinds k); [|assumption]. apply PlacedLL_app; [assumption | repeat constructor; assumption]. }
    assert (Hch1 : PlacedL k1 (if is_kind args_kinds k then [] else merged (f_children f))).
    { destruct (is_kind args_kinds k); [constructor | assumption]. }
    assert (Hdefault : PlacedN (Nd k1 (if is_kind args_kinds k then f_largs f ++ [merged (f_children f)] else f_largs f)
                                   (if is_kind args_kinds k then [] else merged (f_children f)) (f_head f) None)).
    { constructor; auto. constructor. }
    destruct (f_head f) as [[|h0 h]|] eqn:Eh; try exact Hdefault.
    destruct (kind_eqb k LIST_ITEM && semi); [|exact Hdefault].
    inversion Hh1; subst.
    constructor; auto; constructor; assumption.
  Qed.

  Lemma close_frame_kind : forall f semi tofn, node_kind (close_frame f semi tofn) = if tofn then PARSER_FN else f_kind f.
  Proof.
    intros f semi tofn. unfold Stack.close_frame.
    destruct (f_head f) as [[|h0 h]|]; try reflexivity. destruct (kind_eqb (f_kind f) LIST_ITEM && semi); reflexivity.
  Qed.

  Lemma trail_placed : forall p l s l', is_list p = false -> PlacedL p l -> trail l s = Some l' -> PlacedL p l'.
  Proof.
    intros p l s l' Hp Hl Ht. unfold trail in Ht.
    assert (Hr : PlacedL p (rev l)) by (apply PlacedL_rev; assumption).
    destruct (rev l) as [|x before] eqn:E; [discriminate|].
    destruct x as [|n]; [discriminate|]. destruct n as [k largs ch h d].
    destruct k; try discriminate. destruct ch; [|discriminate].
    inversion Ht; subst l'; clear Ht.
    inversion Hr; subst.
    apply PlacedL_app; [apply PlacedL_rev; assumption|].
    constructor; [assumption | | constructor].
    match goal with H : PlacedN (Nd LINK _ _ _ _) |- _ => inversion H; subst end.
    constructor; auto. constructor; [reflexivity | constructor].
  Qed.

  (* ---------- one guarded operation ---------- *)
  Lemma FramePlaced_set_children : forall f ch, FramePlaced f -> PlacedL (f_kind f) ch -> FramePlaced (set_children f ch).
  Proof. intros f ch (A & B & C) H. repeat split; simpl; auto. Qed.

  Lemma frames_placed_same_kind : forall f g r, f_kind g = f_kind f -> frames_placed (f :: r) -> frames_placed (g :: r).
  Proof. intros f g r E H. destruct r; simpl in *; [exact I | rewrite E; exact H]. Qed.

  (* the frame below keeps accepting what is above it when only its children change; when its kind changes from
     TEMPLATE to PARSER_FN nothing that could be above it is affected either *)
  Lemma frames_placed_below : forall f p p' r,
    kind_eqb (f_kind p) LIST = kind_eqb (f_kind p') LIST -> kind_eqb (f_kind p) TABLE = kind_eqb (f_kind p') TABLE ->
    kind_eqb (f_kind p) TABLE_ROW = kind_eqb (f_kind p') TABLE_ROW ->
    (match r with q :: _ => placed_ok (f_kind q) (f_kind p') = placed_ok (f_kind q) (f_kind p) | [] => True end) ->
    frames_placed (f :: p :: r) -> frames_placed (f :: p' :: r).
  Proof.
    intros f p p' r H1 H2 H3 Hq [Hf Hr]. split.
    - rewrite <- (placed_parent_irrelevant _ _ _ H1 H2 H3). exact Hf.
    - destruct r as [|q r]; [exact I|]. simpl in *. destruct Hr as [Hp Hr]. split; [rewrite Hq; exact Hp | exact Hr].
  Qed.

  Lemma step_PInv : forall st o st', PInv st -> guard st o = true -> step st o = Some st' -> PInv st'.
  Proof.
    intros st o st' [Hf Hk] Hg Hs.
    destruct o as [k|warn semi tofn| |s|s|tofn| | |]; destruct st as [|f r]; cbn [Stack.step] in Hs; try discriminate.
    - (* push *)
      destruct (kind_eqb k ROOT); [discriminate|]. inversion Hs; subst; clear Hs. inversion Hf; subst.
      simpl in Hg. split.
      + constructor; [repeat split; simpl; constructor|].
        constructor; [|assumption]. apply FramePlaced_set_children; [assumption|].
        apply merged_placed. match goal with H : FramePlaced f |- _ => destruct H as (C & _); exact C end.
      + split; [exact Hg | apply (frames_placed_same_kind f); [reflexivity | exact Hk]].
    - (* pop *)
      destruct r as [|p r]; [discriminate|].
      destruct Hk as [Hfp Hk].
      inversion Hf as [|? ? Hff Hfr]; subst. inversion Hfr as [|? ? Hpp Hfr']; subst.
      match type of Hs with (if ?c then _ else _) = _ => destruct c end.
      + inversion Hs; subst. split; [constructor; assumption | exact Hk].
      + destruct (tofn && negb (kind_eqb (f_kind f) TEMPLATE)) eqn:Et; [discriminate|].
        inversion Hs; subst; clear Hs.
        assert (Htofn : tofn = true -> f_kind f = TEMPLATE).
        { intros ->. simpl in Et. apply negb_false_iff in Et. apply (proj1 (kind_eqb_eq _ _)) in Et. exact Et. }
        assert (Hkind : placed_ok (f_kind p) (node_kind (close_frame f semi tofn)) = true).
        { rewrite close_frame_kind. destruct tofn; [|exact Hfp].
          rewrite <- placed_child_fn. rewrite <- (Htofn eq_refl). exact Hfp. }
        split.
        * constructor; [|assumption].
          apply FramePlaced_set_children; [assumption|].
          apply PlacedL_app; [destruct Hpp as (C & _); exact C|].
          constructor; [exact Hkind | apply close_frame_placed; assumption | constructor].
        * apply (frames_placed_same_kind p); [reflexivity | exact Hk].
    - (* merge *)
      inversion Hs; subst; clear Hs. inversion Hf; subst. split.
      + constructor; [|assumption]. apply FramePlaced_set_children; [assumption|].
        apply merged_placed. match goal with H : FramePlaced f |- _ => destruct H as (C & _); exact C end.
      + apply (frames_placed_same_kind f); [reflexivity | exact Hk].
    - (* text *)
      inversion Hs; subst; clear Hs. inversion Hf; subst. simpl in Hg. apply negb_true_iff in Hg. split.
      + constructor; [|assumption]. apply FramePlaced_set_children; [assumption|].
        apply PlacedL_app; [match goal with H : FramePlaced f |- _ => destruct H as (C & _); exact C end|].
        constructor; [exact Hg | constructor].
      + apply (frames_placed_same_kind f); [reflexivity | exact Hk].
    - (* trail *)
      destruct (Stack.clean magic s); [|discriminate].
      destruct (trail (f_children f) s) as [ch|] eqn:Et; [|discriminate].
      inversion Hs; subst; clear Hs. inversion Hf; subst.
      assert (Hnl : is_list (f_kind f) = false).
      { (* a LIST has no LINK child *)
        destruct (is_list (f_kind f)) eqn:El; [|reflexivity]. exfalso.
        match goal with H : FramePlaced f |- _ => destruct H as (C & _) end.
        unfold trail in Et. assert (Hr : PlacedL (f_kind f) (rev (f_children f))) by (apply PlacedL_rev; exact C).
        destruct (rev (f_children f)) as [|x before]; [discriminate|].
        destruct x as [|n]; [discriminate|]. destruct n as [k largs ch0 h d]. destruct k; try discriminate.
        inversion Hr; subst. unfold is_list in El. unfold placed_ok in *. simpl in *. rewrite El in *. simpl in *. discriminate. }
      split.
      + constructor; [|assumption]. apply FramePlaced_set_children; [assumption|].
        apply (trail_placed (f_kind f) (f_children f) s); auto.
        match goal with H : FramePlaced f |- _ => destruct H as (C & _); exact C end.
      + apply (frames_placed_same_kind f); [reflexivity | exact Hk].
    - (* children -> largs *)
      destruct (negb (is_kind largs_kinds (f_kind f)) || (tofn && negb (kind_eqb (f_kind f) TEMPLATE))) eqn:Eg; [discriminate|].
      apply orb_false_iff in Eg. destruct Eg as [Eg1 Eg2].
      inversion Hs; subst; clear Hs. inversion Hf as [|? ? Hff Hfr]; subst.
      destruct Hff as (A & B & C).
      assert (Htofn : tofn = true -> f_kind f = TEMPLATE).
      { intros ->. simpl in Eg2. apply negb_false_iff in Eg2. apply (proj1 (kind_eqb_eq _ _)) in Eg2. exact Eg2. }
      set (k1 := if tofn then PARSER_FN else f_kind f).
      assert (R1 : kind_eqb (f_kind f) LIST = kind_eqb k1 LIST) by (unfold k1; destruct tofn; [rewrite (Htofn eq_refl); reflexivity | reflexivity]).
      assert (R2 : kind_eqb (f_kind f) TABLE = kind_eqb k1 TABLE) by (unfold k1; destruct tofn; [rewrite (Htofn eq_refl); reflexivity | reflexivity]).
      assert (R3 : kind_eqb (f_kind f) TABLE_ROW = kind_eqb k1 TABLE_ROW) by (unfold k1; destruct tofn; [rewrite (Htofn eq_refl); reflexivity | reflexivity]).
      split.
      + constructor; [|assumption]. repeat split; cbn [f_kind f_children f_largs f_head]; fold k1.
        * constructor.
        * apply PlacedLL_app; [apply (PlacedLL_reparent (f_kind f) k1); auto|].
          repeat constructor. apply (PlacedL_reparent (f_kind f) k1); auto. apply merged_placed; assumption.
        * apply (PlacedO_reparent (f_kind f) k1); auto.
      + destruct r as [|p r]; [exact I|]. destruct Hk as [Hp Hr]. split; [|exact Hr].
        cbn [f_kind]. fold k1. unfold k1. destruct tofn; [|exact Hp].
        rewrite <- placed_child_fn. rewrite <- (Htofn eq_refl). exact Hp.
    - (* children -> temp_head *)
      destruct (kind_eqb (f_kind f) LIST_ITEM) eqn:Ek; [|discriminate].
      inversion Hs; subst; clear Hs. inversion Hf as [|? ? Hff Hfr]; subst.
      destruct Hff as (A & B & C).
      split.
      + constructor; [|assumption]. repeat split; cbn [f_kind f_children f_largs f_head]; auto.
        * constructor.
        * constructor. apply merged_placed; assumption.
      + apply (frames_placed_same_kind f); [reflexivity | exact Hk].
    - (* clear *)
      inversion Hs; subst; clear Hs. inversion Hf; subst. split.
      + constructor; [|assumption]. apply FramePlaced_set_children; [assumption | constructor].
      + apply (frames_placed_same_kind f); [reflexivity | exact Hk].
    - (* un-push *)
      destruct r as [|p r]; [discriminate|].
      destruct (kind_eqb (f_kind f) URL && is_nil (f_children f)); [|discriminate].
      inversion Hs; subst; clear Hs. inversion Hf; subst. destruct Hk as [_ Hk]. split; assumption.
  Qed.

  Lemma run_guarded_PInv : forall ops st st', PInv st -> run_guarded st ops = Some st' -> PInv st'.
  Proof.
    induction ops as [|o ops IH]; intros st st' Hi Hr; simpl in Hr.
    - inversion Hr; subst; exact Hi.
    - destruct (guard st o) eqn:Eg; [|discriminate].
      destruct (step st o) as [st1|] eqn:E; [|discriminate].
      apply (IH st1); [apply (step_PInv st o); assumption | exact Hr].
  Qed.

  Lemma init_PInv : forall title, PInv (init title).
  Proof.
    intros title. split; [|exact I].
    constructor; [|constructor]. repeat split; simpl; repeat constructor.
  Qed.

  (* the closing loop only performs guarded operations: the bracket of a URL that is taken back never lands in a LIST *)
  Lemma finale_PInv : forall flags st st', PInv st -> finale flags st = Some st' -> PInv st'.
  Proof.
    induction flags as [|[semi tofn] fl IH]; intros st st' Hi Hf.
    - destruct st as [|f [|g r]]; simpl in Hf; try discriminate. inversion Hf; subst; exact Hi.
    - destruct st as [|f [|p r]]; [discriminate | simpl in Hf; inversion Hf; subst; exact Hi |].
      cbn [Stack.finale] in Hf.
      destruct (step (f :: p :: r) (OPop true semi (tofn && kind_eqb (f_kind f) TEMPLATE))) as [st1|] eqn:E1; [|discriminate].
      assert (H1 : PInv st1) by (apply (step_PInv (f :: p :: r) (OPop true semi (tofn && kind_eqb (f_kind f) TEMPLATE))); [exact Hi | reflexivity | exact E1]).
      destruct (kind_eqb (f_kind f) URL && is_nil (merged (f_children f))) eqn:Eu.
      + destruct (step st1 (OText lbracket)) as [st2|] eqn:E2; [|discriminate].
        apply (IH st2); [|exact Hf].
        apply (step_PInv st1 (OText lbracket)); [exact H1 | | exact E2].
        (* st1 = p :: r: the URL was taken back; p accepted a URL above it, so p is no LIST *)
        apply andb_true_iff in Eu. destruct Eu as [Eu En].
        cbn [Stack.step] in E1. rewrite Eu, En in E1. simpl in E1. inversion E1; subst.
        destruct Hi as [_ [Hp _]]. apply (proj1 (kind_eqb_eq _ _)) in Eu. rewrite Eu in Hp.
        simpl. destruct (kind_eqb (f_kind p) LIST) eqn:El; [|reflexivity].
        unfold placed_ok in Hp. rewrite El in Hp. simpl in Hp. discriminate Hp.
      + apply (IH st1); assumption.
  Qed.

  Lemma result_placed : forall st t, PInv st -> result st = Some t -> PlacedRoot t.
  Proof.
    intros st t [Hf _] Hr. destruct st as [|f [|g r]]; simpl in Hr; try discriminate.
    inversion Hr; subst. inversion Hf; subst.
    match goal with H : FramePlaced f |- _ => destruct H as (A & B & C) end.
    constructor; [apply merged_placed; assumption | assumption | assumption | constructor].
  Qed.

  Theorem guarded_sequences_place_list_and_table_nodes :
    forall title ops st flags st' t,
      run_guarded (init title) ops = Some st -> finale flags st = Some st' -> result st' = Some t -> PlacedRoot t.
  Proof.
    intros title ops st flags st' t Hr Hf Hres.
    apply (result_placed st'); [|exact Hres].
    apply (finale_PInv flags st); [|exact Hf].
    apply (run_guarded_PInv ops (init title)); [apply init_PInv | exact Hr].
  Qed.
End Placed.
