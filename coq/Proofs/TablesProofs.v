(** The table machine of Model/Tables.v (the table handlers of parser.py on the parser stack) reads every written
    table of the grammar -- any number of rows and of cells per row, one cell per line or "||" / "!!" separated,
    optional caption, optional attributes on table, rows, caption and cells, tables nested in cells to any depth --
    into exactly the tree [tree_table] prescribes, whatever is open below it on the stack; it never reaches a
    situation the machine does not transcribe. *)
From Coq Require Import List Arith Bool Lia.
From WTP Require Import Model.Tables.
Import ListNotations.

Lemma run_app a : forall b st, run (a ++ b) st = run a st >>= run b.
Proof. induction a as [|t a IH]; intros b st; cbn [run app]; [reflexivity|].
  destruct (step st t) as [st'|]; cbn [bind]; [apply IH | reflexivity]. Qed.
Lemma run_app_some a b st st' : run a st = Some st' -> run (a ++ b) st = run b st'.
Proof. intros H. rewrite run_app, H. reflexivity. Qed.

(** * the list parts of the mutually recursive definitions, by name *)
Definition render_items := fix go (is : list citem) : list tok :=
  match is with [] => [] | i :: is' => render_item i ++ go is' end.
Definition render_cells := fix go (cs : list cell) : list tok :=
  match cs with [] => [] | c :: cs' => render_cell c ++ go cs' end.
Definition render_rows := fix go (rs : list row) : list tok :=
  match rs with [] => [] | r :: rs' => render_row r ++ go rs' end.
Definition content_ch := fix go (ch : list tchild) (is : list citem) : list tchild :=
  match is with
  | [] => ch
  | IText a :: is' => go (add_text_ch a ch) is'
  | ITable t :: is' => go (CN (tree_table t) :: ch) is'
  end.
Definition cells_tree := fix go (prev : bool) (cs : list cell) : list tchild :=
  match cs with
  | [] => []
  | Cell s b :: cs' => CN (tree_body (cell_kind (kind_after prev s)) b) :: go (kind_after prev s) cs'
  end.
Definition rows_tree := fix go (rs : list row) : list tchild :=
  match rs with [] => [] | r :: rs' => CN (tree_row r) :: go rs' end.
Definition wf_items := fix go (is : list citem) : bool :=
  match is with [] => true | i :: is' => wf_item i && go is' end.
Definition wf_cells := fix go (prev : bool) (cs : list cell) : bool :=
  match cs with
  | [] => true
  | Cell s b :: cs' => sep_ok prev s && wf_body b && go (kind_after prev s) cs'
  end.
Definition wf_rows := fix go (rs : list row) : bool :=
  match rs with [] => true | r :: rs' => wf_row r && go rs' end.

Definition attr_toks (o : option atom) : list tok := match o with Some a => [TText a; TBar false] | None => [] end.
Definition cap_toks (c : option body) : list tok := match c with Some b => TCaption :: render_body b | None => [] end.
Definition cap_tree (c : option body) : list tchild := match c with Some b => [CN (tree_body KCaption b)] | None => [] end.

Lemma render_body_eq a c : render_body (Body a c) = attr_toks a ++ render_items c.
Proof. reflexivity. Qed.
Lemma render_row_eq ra h f m : render_row (Row ra h f m) = TRow :: opt_toks ra ++ sep_tok (SBol h) :: render_body f ++ render_cells m.
Proof. reflexivity. Qed.
Lemma render_table_eq ta c rs : render_table (Table ta c rs) = TStart :: opt_toks ta ++ cap_toks c ++ render_rows rs ++ [TEnd].
Proof. destruct c; reflexivity. Qed.
Lemma tree_body_eq k a c : tree_body k (Body a c) = TN k (opt_attrs a) (rev (content_ch [] c)).
Proof. reflexivity. Qed.
Lemma tree_row_eq ra h f m : tree_row (Row ra h f m) = TN KRow (opt_attrs ra) (CN (tree_body (cell_kind h) f) :: cells_tree h m).
Proof. reflexivity. Qed.
Lemma tree_table_eq ta c rs : tree_table (Table ta c rs) = TN KTable (opt_attrs ta) (cap_tree c ++ rows_tree rs).
Proof. destruct c; reflexivity. Qed.
Lemma wf_body_eq a c : wf_body (Body a c) = wf_items c.
Proof. reflexivity. Qed.
Lemma wf_row_eq ra h f m : wf_row (Row ra h f m) = wf_body f && wf_cells h m.
Proof. reflexivity. Qed.
Lemma wf_table_eq ta c rs : wf_table (Table ta c rs) = match c with Some b => wf_body b | None => true end && wf_rows rs.
Proof. reflexivity. Qed.

(** * sizes, for the induction through nested tables *)
Fixpoint isize (i : citem) : nat :=
  match i with IText _ => 1 | ITable t => S (tsize t) end
with tsize (t : table) : nat :=
  match t with
  | Table _ cap rows =>
    S (match cap with Some b => bsize b | None => 0 end
       + (fix go (rs : list row) := match rs with [] => 0 | r :: rs' => rsize r + go rs' end) rows)
  end
with rsize (r : row) : nat :=
  match r with
  | Row _ _ first more =>
    S (bsize first + (fix go (cs : list cell) := match cs with [] => 0 | c :: cs' => csize c + go cs' end) more)
  end
with csize (c : cell) : nat := match c with Cell _ b => S (bsize b) end
with bsize (b : body) : nat :=
  match b with
  | Body _ content => S ((fix go (is : list citem) := match is with [] => 0 | i :: is' => isize i + go is' end) content)
  end.
Definition items_size := fix go (is : list citem) : nat := match is with [] => 0 | i :: is' => isize i + go is' end.
Definition cells_size := fix go (cs : list cell) : nat := match cs with [] => 0 | c :: cs' => csize c + go cs' end.
Definition rows_size := fix go (rs : list row) : nat := match rs with [] => 0 | r :: rs' => rsize r + go rs' end.
Lemma bsize_eq a c : bsize (Body a c) = S (items_size c).
Proof. reflexivity. Qed.
Lemma rsize_eq ra h f m : rsize (Row ra h f m) = S (bsize f + cells_size m).
Proof. reflexivity. Qed.
Lemma tsize_eq ta c rs : tsize (Table ta c rs) = S (match c with Some b => bsize b | None => 0 end + rows_size rs).
Proof. reflexivity. Qed.

Definition TableOK (t : table) : Prop :=
  forall f rest, run (render_table t) (f :: rest) = Some (addchild f (CN (tree_table t)) :: rest).

Section Level.
  Variable n : nat.
  Hypothesis IHt : forall t, tsize t < n -> wf_table t = true -> TableOK t.

  (** content of a caption or cell: texts join the string before them, a nested table becomes one child *)
  Lemma content_run : forall content, items_size content < n -> wf_items content = true ->
    forall F below, run (render_items content) (F :: below)
                    = Some (mkframe (fk F) (fattrs F) (content_ch (fch F) content) :: below).
  Proof. induction content as [|i content IH]; intros Hsz Hwf F below.
    - destruct F; reflexivity.
    - cbn [render_items items_size wf_items] in *. apply andb_true_iff in Hwf. destruct Hwf as [Hwi Hwc].
      destruct i as [a|t].
      + cbn [render_item app run step mark_of text bind isize] in *.
        rewrite IH by (try assumption; lia). destruct F; reflexivity.
      + cbn [render_item isize wf_item] in *.
        rewrite (run_app_some _ _ _ _ (IHt t ltac:(lia) Hwi F below)).
        rewrite IH by (try assumption; lia). destruct F; reflexivity. Qed.

  Definition bodyframe (k : tkind) (b : body) : frame :=
    match b with Body a c => mkframe k (opt_attrs a) (content_ch [] c) end.
  Lemma close_bodyframe k b : close (bodyframe k b) = tree_body k b.
  Proof. destruct b; reflexivity. Qed.

  Lemma body_run : forall b k, is_cellish k = true -> bsize b < n -> wf_body b = true ->
    forall below, have_table below = true ->
    run (render_body b) (mkframe k [] [] :: below) = Some (bodyframe k b :: below).
  Proof. intros [a c] k Hk Hsz Hwf below Hb. rewrite render_body_eq, bsize_eq, wf_body_eq in *.
    destruct a as [a|]; cbn [attr_toks app].
    - unfold have_table in Hb. destruct k; try discriminate Hk;
        (cbn [run bind]; unfold step, mark_of, vbar_fn, text; cbn -[render_items run content_ch]; rewrite Hb;
         cbn -[render_items run content_ch]; unfold take_attrs, attrs_in; cbn -[render_items run content_ch];
         rewrite content_run by (try assumption; lia); reflexivity).
    - rewrite content_run by (try assumption; lia). reflexivity. Qed.
End Level.

(** * single tokens *)
Definition Tf (a : list nat) (ch : list tchild) : frame := mkframe KTable a ch.
Definition Rf (a : list nat) (ch : list tchild) : frame := mkframe KRow a ch.
Definition Cf (h : bool) (a : list nat) (ch : list tchild) : frame := mkframe (cell_kind h) a ch.
Definition pending (o : option atom) : list tchild := match o with Some a => [CS [a]] | None => [] end.

(* a cell separator after an open cell of the row: the cell is closed into the row, a new one opened *)
Lemma sep_step prev s ca cc ra rc ta tc base : sep_ok prev s = true ->
  step (Cf prev ca cc :: Rf ra rc :: Tf ta tc :: base) (sep_tok s)
  = Some (Cf (kind_after prev s) [] [] :: addchild (Rf ra rc) (CN (close (Cf prev ca cc))) :: Tf ta tc :: base).
Proof. intros Hok. destruct s as [h| |]; destruct prev; try destruct h; try discriminate Hok; reflexivity. Qed.

(* the first cell mark of a row, after "|-" and its optional attributes *)
Lemma first_sep_step h ra ta tc base :
  step (Rf [] (pending ra) :: Tf ta tc :: base) (sep_tok (SBol h))
  = Some (Cf h [] [] :: Rf (opt_attrs ra) [] :: Tf ta tc :: base).
Proof. destruct h, ra as [a|]; reflexivity. Qed.

(** what is open above the table when a row mark, a caption mark or the end mark arrives *)
Inductive Above : list frame -> frame -> frame -> Prop :=
| AStart p : Above [] (Tf [] (pending p)) (Tf (opt_attrs p) [])
| ACap ca cc ta tc : Above [mkframe KCaption ca cc] (Tf ta tc) (addchild (Tf ta tc) (CN (close (mkframe KCaption ca cc))))
| ACell h ca cc ra rc ta tc :
    Above [Cf h ca cc; Rf ra rc] (Tf ta tc)
          (addchild (Tf ta tc) (CN (close (addchild (Rf ra rc) (CN (close (Cf h ca cc))))))).
Lemma above_kind S T T' : Above S T T' -> fk T' = KTable.
Proof. intros H. destruct H; reflexivity. Qed.

Lemma row_step S T T' base : Above S T T' ->
  step (S ++ T :: base) TRow = Some (Rf [] [] :: T' :: base).
Proof. intros H. destruct H as [p|ca cc ta tc|h ca cc ra rc ta tc].
  - destruct p; reflexivity.
  - reflexivity.
  - destruct h; reflexivity. Qed.
Lemma end_step S T T' f rest : Above S T T' ->
  step (S ++ T :: f :: rest) TEnd = Some (addchild f (CN (close T')) :: rest).
Proof. intros H. destruct H as [p|ca cc ta tc|h ca cc ra rc ta tc].
  - destruct p; reflexivity.
  - reflexivity.
  - destruct h; reflexivity. Qed.
Lemma caption_step p base :
  step (Tf [] (pending p) :: base) TCaption = Some (mkframe KCaption [] [] :: Tf (opt_attrs p) [] :: base).
Proof. destruct p; reflexivity. Qed.

Lemma have_table_T S ta tc base : have_table (S ++ Tf ta tc :: base) = true.
Proof. unfold have_table. rewrite existsb_app. cbn. apply orb_true_r. Qed.

Section Level2.
  Variable n : nat.
  Hypothesis IHt : forall t, tsize t < n -> wf_table t = true -> TableOK t.

  (* the further cells of a row *)
  Lemma cells_run : forall more prev ca cc ra rc ta tc base,
    cells_size more < n -> wf_cells prev more = true ->
    exists h' ca' cc' rc',
      run (render_cells more) (Cf prev ca cc :: Rf ra rc :: Tf ta tc :: base)
      = Some (Cf h' ca' cc' :: Rf ra rc' :: Tf ta tc :: base)
      /\ rev (CN (close (Cf h' ca' cc')) :: rc') = rev (CN (close (Cf prev ca cc)) :: rc) ++ cells_tree prev more.
  Proof. induction more as [|[s b] more IH]; intros prev ca cc ra rc ta tc base Hsz Hwf.
    - exists prev, ca, cc, rc. split; [reflexivity | rewrite app_nil_r; reflexivity].
    - cbn [render_cells render_cell cells_size csize wf_cells cells_tree] in *.
      apply andb_true_iff in Hwf. destruct Hwf as [Hwf Hwm]. apply andb_true_iff in Hwf. destruct Hwf as [Hs Hwb].
      set (k := kind_after prev s) in *.
      assert (Hb : run (render_body b) (Cf k [] [] :: addchild (Rf ra rc) (CN (close (Cf prev ca cc))) :: Tf ta tc :: base)
                   = Some (bodyframe (cell_kind k) b :: addchild (Rf ra rc) (CN (close (Cf prev ca cc))) :: Tf ta tc :: base)).
      { apply (body_run n IHt); try assumption; try lia.
        - destruct k; reflexivity.
        - apply (have_table_T [_]). }
      destruct b as [a c]. cbn [bodyframe] in Hb.
      destruct (IH k (opt_attrs a) (content_ch [] c) ra (CN (close (Cf prev ca cc)) :: rc) ta tc base ltac:(lia) Hwm)
        as [h' [ca' [cc' [rc' [Hrun Hrev]]]]].
      exists h', ca', cc', rc'. split.
      + cbn [app run]. rewrite (sep_step prev s) by assumption. cbn [bind]. fold k.
        rewrite (run_app_some _ _ _ _ Hb). exact Hrun.
      + rewrite Hrev. cbn [rev]. rewrite <- !app_assoc. cbn [app].
        change (close (Cf k (opt_attrs a) (content_ch [] c))) with (tree_body (cell_kind k) (Body a c)). reflexivity. Qed.

  (* a row: from whatever is open above the table to the row's last cell open *)
  Lemma row_run : forall r S T T' base, Above S T T' -> rsize r < n -> wf_row r = true ->
    exists h ca cc ra rc ta tc,
      T' = Tf ta tc /\
      run (render_row r) (S ++ T :: base) = Some (Cf h ca cc :: Rf ra rc :: Tf ta tc :: base)
      /\ close (addchild (Rf ra rc) (CN (close (Cf h ca cc)))) = tree_row r.
  Proof. intros [ra h f m] S T T' base HA Hsz Hwf.
    rewrite render_row_eq, rsize_eq, wf_row_eq, tree_row_eq in *. apply andb_true_iff in Hwf. destruct Hwf as [Hwf Hwm].
    assert (HT : exists ta tc, T' = Tf ta tc).
    { destruct HA; eexists; eexists; reflexivity. }
    destruct HT as [ta [tc ->]].
    assert (Hb : run (render_body f) (Cf h [] [] :: Rf (opt_attrs ra) [] :: Tf ta tc :: base)
                 = Some (bodyframe (cell_kind h) f :: Rf (opt_attrs ra) [] :: Tf ta tc :: base)).
    { apply (body_run n IHt); try assumption; try lia.
      - destruct h; reflexivity.
      - apply (have_table_T [_]). }
    destruct f as [a c]. cbn [bodyframe] in Hb.
    destruct (cells_run m h (opt_attrs a) (content_ch [] c) (opt_attrs ra) [] ta tc base ltac:(lia) Hwm)
      as [h' [ca' [cc' [rc' [Hrun Hrev]]]]].
    exists h', ca', cc', (opt_attrs ra), rc', ta, tc. split; [reflexivity|]. split.
    - cbn [run]. rewrite (row_step _ _ _ _ HA). cbn [bind].
      assert (Hattr : run (opt_toks ra) (Rf [] [] :: Tf ta tc :: base) = Some (Rf [] (pending ra) :: Tf ta tc :: base)).
      { destruct ra; reflexivity. }
      rewrite (run_app_some _ _ _ _ Hattr). cbn [run]. rewrite first_sep_step. cbn [bind].
      rewrite (run_app_some _ _ _ _ Hb). exact Hrun.
    - unfold close at 1. cbn [addchild fk fattrs fch Rf]. rewrite Hrev. cbn [rev app]. reflexivity. Qed.

  (* the rows and the end mark *)
  Lemma rows_run : forall rows S T T' f rest, Above S T T' -> rows_size rows < n -> wf_rows rows = true ->
    run (render_rows rows ++ [TEnd]) (S ++ T :: f :: rest)
    = Some (addchild f (CN (TN KTable (fattrs T') (rev (fch T') ++ rows_tree rows))) :: rest).
  Proof. induction rows as [|r rows IH]; intros S T T' f rest HA Hsz Hwf.
    - cbn [render_rows app run]. rewrite (end_step _ _ _ _ _ HA). cbn [bind rows_tree]. rewrite app_nil_r.
      unfold close. rewrite (above_kind _ _ _ HA). reflexivity.
    - cbn [render_rows rows_size wf_rows rows_tree] in *. apply andb_true_iff in Hwf. destruct Hwf as [Hwr Hwf].
      destruct (row_run r S T T' (f :: rest) HA ltac:(lia) Hwr) as [h [ca [cc [ra [rc [ta [tc [-> [Hrun Htree]]]]]]]]].
      rewrite <- app_assoc. rewrite (run_app_some _ _ _ _ Hrun).
      change (Cf h ca cc :: Rf ra rc :: Tf ta tc :: f :: rest) with ([Cf h ca cc; Rf ra rc] ++ Tf ta tc :: f :: rest).
      rewrite (IH [Cf h ca cc; Rf ra rc] (Tf ta tc) _ f rest (ACell h ca cc ra rc ta tc) ltac:(lia) Hwf).
      rewrite Htree. cbn [addchild fattrs fch Tf rev]. rewrite <- app_assoc. reflexivity. Qed.

  Lemma table_run : forall t, tsize t <= n -> wf_table t = true -> TableOK t.
  Proof. intros [ta c rs] Hsz Hwf f rest. rewrite render_table_eq, tsize_eq, wf_table_eq, tree_table_eq in *.
    apply andb_true_iff in Hwf. destruct Hwf as [Hwc Hwr].
    cbn [run step table_start_fn bind push].
    assert (Hattr : run (opt_toks ta) (mkframe KTable [] [] :: f :: rest) = Some (Tf [] (pending ta) :: f :: rest)).
    { destruct ta; reflexivity. }
    rewrite (run_app_some _ _ _ _ Hattr).
    destruct c as [b|]; cbn [cap_toks cap_tree app].
    - cbn [run]. rewrite caption_step. cbn [bind].
      assert (Hb : run (render_body b) (mkframe KCaption [] [] :: Tf (opt_attrs ta) [] :: f :: rest)
                   = Some (bodyframe KCaption b :: Tf (opt_attrs ta) [] :: f :: rest)).
      { apply (body_run n IHt); try assumption; try lia; try reflexivity. }
      rewrite (run_app_some _ _ _ _ Hb). destruct b as [a ct]. cbn [bodyframe].
      change (mkframe KCaption (opt_attrs a) (content_ch [] ct) :: Tf (opt_attrs ta) [] :: f :: rest)
        with ([mkframe KCaption (opt_attrs a) (content_ch [] ct)] ++ Tf (opt_attrs ta) [] :: f :: rest).
      rewrite (rows_run rs [mkframe KCaption (opt_attrs a) (content_ch [] ct)] (Tf (opt_attrs ta) []) _ f rest
                        (ACap _ _ _ _) ltac:(lia) Hwr).
      reflexivity.
    - change (Tf [] (pending ta) :: f :: rest) with ([] ++ Tf [] (pending ta) :: f :: rest).
      rewrite (rows_run rs [] (Tf [] (pending ta)) _ f rest (AStart ta) ltac:(lia) Hwr). reflexivity. Qed.
End Level2.

Theorem table_parses_as_written : forall t, wf_table t = true -> TableOK t.
Proof. assert (H : forall n t, tsize t < n -> wf_table t = true -> TableOK t).
  { induction n as [|n IH]; intros t Hsz Hwf; [lia|]. apply (table_run n IH); [lia | assumption]. }
  intros t Hwf. apply (H (S (tsize t))); [lia | assumption]. Qed.

(* the document level: the table is the only child, nothing is left open, the machine never stops *)
Theorem parse_written_table t : wf_table t = true -> parse (render_table t) = Some [CN (tree_table t)].
Proof. intros Hwf. unfold parse. rewrite (table_parses_as_written t Hwf bottom []). reflexivity. Qed.
