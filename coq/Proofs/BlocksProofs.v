(** The line-by-line machine of Model/Blocks.v (list machine on top of the section machine, lists closed by every
    other block) builds, for every page of headings, paragraphs, rules and list lines in any order, the tree of the
    specification: list lines form lists by the prefix rule, and sections absorb what follows them. *)
From Coq Require Import List Arith Bool Lia.
From WTP Require Import Model.Blocks.
From WTP Require Model.Lists Model.Nest Proofs.ListsProofs Proofs.NestProofs.
Import ListNotations.

Lemma step_lists_as_blocks ns : forall top rest,
  fold_left Nest.step (map (fun n => Nest.T (Nest.PList n)) ns) (top, rest)
  = (fold_left (fun t n => Nest.addc t (Nest.IT (Nest.PList n))) ns top, rest).
Proof. induction ns as [|n ns IH]; intros top rest; [reflexivity|]. cbn [map fold_left Nest.step]. apply IH. Qed.

Lemma flush_as_blocks pend sec :
  flush (fold_left Lists.step pend no_lists, sec) = fold_left Nest.step (lists_as_blocks Lists.parse pend) sec.
Proof. destruct sec as [top rest]. unfold flush, lists_as_blocks, Lists.parse. rewrite step_lists_as_blocks. reflexivity. Qed.

(* the machine, with the list lines since the last other block still pending *)
Lemma run_group : forall d pend sec,
  cfinish (fold_left cstep d (fold_left Lists.step pend no_lists, sec))
  = Nest.finish (fold_left Nest.step (group Lists.parse pend d) sec).
Proof. induction d as [|b d IH]; intros pend sec.
  - cbn [fold_left group]. unfold cfinish. rewrite flush_as_blocks. reflexivity.
  - assert (Hother : forall b', (match b' with BLI _ _ => False | _ => True end) ->
        cfinish (fold_left cstep d (cstep (fold_left Lists.step pend no_lists, sec) b'))
        = Nest.finish (fold_left Nest.step (lists_as_blocks Lists.parse pend ++ to_blk b' :: group Lists.parse [] d) sec)).
    { intros b' Hb'. rewrite fold_left_app. cbn [fold_left]. rewrite <- flush_as_blocks.
      replace (cstep (fold_left Lists.step pend no_lists, sec) b')
        with (fold_left Lists.step [] no_lists, Nest.step (flush (fold_left Lists.step pend no_lists, sec)) (to_blk b'))
        by (destruct b'; try contradiction; reflexivity).
      apply IH. }
    destruct b as [l id|id|id|m id]; cbn [fold_left group]; try (apply Hother; exact I).
    cbn [cstep fst snd]. rewrite <- (IH (pend ++ [(m, id)]) sec). rewrite fold_left_app. reflexivity. Qed.

Theorem parse_is_grouped d : parse d = Nest.parse (group Lists.parse [] d).
Proof. unfold parse, Nest.parse. apply (run_group d [] (Nest.root, [])). Qed.

(* the grouped page under the two specifications *)
Lemma group_ext (f g : list (Lists.marker * nat) -> list Lists.lnode) : forall d pend,
  Forall (fun l => fst l <> []) pend -> Forall cblk_ok d ->
  (forall p, Forall (fun l => fst l <> []) p -> f p = g p) -> group f pend d = group g pend d.
Proof. induction d as [|b d IH]; intros pend Hp Hd Hfg.
  - cbn [group]; unfold lists_as_blocks. rewrite (Hfg pend Hp). reflexivity.
  - inversion Hd as [|? ? Hb Hd']; subst. destruct b as [l id|id|id|m id]; cbn [group]; unfold lists_as_blocks;
      try (rewrite (Hfg pend Hp); do 2 f_equal; apply IH; [constructor | exact Hd' | exact Hfg]).
    apply IH; try assumption. apply Forall_app. split; [exact Hp|]. constructor; [exact Hb | constructor]. Qed.

Lemma group_blk_ok f : forall d pend, Forall cblk_ok d -> Forall NestProofs.blk_ok (group f pend d).
Proof. induction d as [|b d IH]; intros pend Hd.
  - cbn [group]; unfold lists_as_blocks. apply Forall_forall. intros x Hx. apply in_map_iff in Hx. destruct Hx as [n [<- _]]. exact I.
  - inversion Hd as [|? ? Hb Hd']; subst.
    assert (Hl : forall p, Forall NestProofs.blk_ok (map (fun n => Nest.T (Nest.PList n)) (f p))).
    { intros p. apply Forall_forall. intros x Hx. apply in_map_iff in Hx. destruct Hx as [n [<- _]]. exact I. }
    destruct b as [l id|id|id|m id]; cbn [group]; unfold lists_as_blocks; try (apply Forall_app; split; [apply Hl | constructor; [exact Hb || exact I | apply IH; exact Hd']]).
    apply IH. exact Hd'. Qed.

Theorem parse_spec d : Forall cblk_ok d -> parse d = spec d.
Proof. intros Hd. rewrite parse_is_grouped. unfold spec.
  pose proof (group_ext Lists.parse Lists.spec d [] (Forall_nil _) Hd ListsProofs.parse_spec) as E.
  transitivity (Nest.parse (group Lists.spec [] d)); [f_equal; exact E|].
  apply NestProofs.parse_spec. apply group_blk_ok. exact Hd. Qed.
