(** C01 — parse() is total and always returns a well-formed tree.
    PARTIAL.  What is proved (for all child lists, any string type and any
    finalisation function): the step that every push and pop of the parser
    performs on the current node's children, _parser_merge_str_children
    (model: Model/Tree.v [merge_str_children]), leaves no two adjacent strings
    and no empty string, keeps the nodes in order, and the remaining strings
    are exactly the finalised texts of the maximal string runs.
    What is decided by execution on every run: totality of parse() and the
    full well-formedness predicate [Model.Tree.wf], which is a Coq function
    evaluated (vm_compute) on every tree the real parser returns for token
    soups, grammar documents, mutated test pages and nesting ladders.  The
    ~25 token handlers and the regex tokenizer are not modelled. *)
From Coq Require Import List Bool.
Import ListNotations.
From WTP Require Import Model.Tree Proofs.TreeProofs.

Theorem c01_merge_no_adjacent_strings :
  forall A S cat is_empty fin (l : list (mchild A S)),
    adj_free A S (merge_str_children A S cat is_empty fin l) false.
Proof. intros. apply merge_adj_free. Qed.
Print Assumptions c01_merge_no_adjacent_strings.

Theorem c01_merge_no_empty_string :
  forall A S cat is_empty fin (l : list (mchild A S)) s,
    In (MStr A S s) (merge_str_children A S cat is_empty fin l) -> is_empty s = false.
Proof. intros A S cat is_empty fin l s. apply merge_no_empty. Qed.
Print Assumptions c01_merge_no_empty_string.

Theorem c01_merge_keeps_nodes :
  forall A S cat is_empty fin (l : list (mchild A S)),
    nodes A S (merge_str_children A S cat is_empty fin l) = nodes A S l.
Proof. intros. apply merge_nodes. Qed.
Print Assumptions c01_merge_keeps_nodes.

Theorem c01_merge_keeps_text :
  forall A S cat is_empty fin (l : list (mchild A S)),
    strs A S (merge_str_children A S cat is_empty fin l)
    = filter (fun s => negb (is_empty s)) (map fin (runs A S cat l None)).
Proof. intros. apply merge_strs. Qed.
Print Assumptions c01_merge_keeps_text.

(* BEGIN PINS (tools/repin.py) *)
From WTP Require Import Gen.GenPins.
Module Pins.
Import String.
(* The models of this property were transcribed from: parser.py:_parser_merge_str_children.
   Gen/GenPins.v holds the digests of these functions in the current source (translate/pins.py: syntax tree without
   docstrings, comments and layout).  A different digest means that the model is no longer known to describe the
   code; the check then reports the broken tie and looks for a failing input. *)
Theorem c01_models_describe_the_current_source :
  pin_merge_str_children = "1df751192f3d260a"%string.
Proof. reflexivity. Qed.
Print Assumptions c01_models_describe_the_current_source.
End Pins.
(* END PINS *)
