(** C01 — parse() is total and always returns a well-formed tree.
    PARTIAL.  What is proved (for all child lists, any string type and any
    finalisation function): the step that every push and pop of the parser
    performs on the current node's children, _parser_merge_str_children
    (model: Model/Tree.v [merge_str_children]), leaves no two adjacent strings
    and no empty string, keeps the nodes in order, and the remaining strings
    are exactly the finalised texts of the maximal string runs.
    What is decided by execution on every run: totality of parse() and the
    full well-formedness predicate [Model.Tree.wf], which is a Coq function
    evaluated (vm_compute) on every tree the real parser returns for token
    soups, grammar documents, mutated test pages and nesting ladders.  Of the
    ~25 token handlers the table handlers are modelled (Model/Tables.v, tied
    to the parser by C03's check): for them the table clause of
    well-formedness is an invariant proved for every token sequence.  The
    other handlers and the regex tokenizer are not modelled.
    What is proved about the parser as a whole (Model/Stack.v,
    Proofs/StackProofs.v): the primitive operations through which every
    handler acts on the open-node stack - _parser_push, _parser_pop with its
    fix-ups, _parser_merge_str_children, and the eight direct changes handlers
    make to the node on top - keep, for EVERY sequence of operations (that is,
    whatever the handlers and the tokenizer decide), the clauses 'strings',
    'root', the argument shape of LINK/TEMPLATE/TEMPLATE_ARG/PARSER_FN/URL, 'no
    largs on other kinds' and 'definition only on list items' of
    well-formedness, at every depth; and the closing loop of parse_encoded ends
    with only the root open.  The model is tied to parser.py by recording the
    operations of real runs (sys.settrace on every line of parser.py) and
    replaying them inside Coq: the replayed tree must be the returned tree. *)
From Coq Require Import List Bool.
Import ListNotations.
From WTP Require Import Model.Tree Proofs.TreeProofs.
From WTP Require Model.Tables Proofs.TablesInvProofs.
From WTP Require Model.Stack Proofs.StackProofs.
From Coq Require Import NArith.

(* Whatever the token handlers do: every tree that any sequence of the parser's primitive stack operations can
   produce, followed by parse_encoded's closing loop (pop until only the root is open; [flags] are the two facts each
   of those pops reads from fields outside the model), is well-formed in the sense of StackProofs.GoodRoot/Good: the
   root is the only ROOT node; no child list, argument, definition or list-item head, at any depth, holds an empty
   string, two strings in a row or a placeholder character; argument-bearing kinds have at least one argument and no
   children (LINK: only its trail); other kinds except headings have no arguments; only list items have a
   definition.  And the loop does end with exactly the root open ("no open-node state is left behind").
   [fin] is Wtp._finalize_expand; the hypothesis on it is false exactly for the inputs of the known findings
   c01:*:placeholder-in-input (a placeholder character in the page text itself). *)
Theorem c01_any_handler_behaviour_gives_a_well_formed_tree :
  forall (fin : Stack.text -> Stack.text) (magic : BinNums.N -> bool),
    (forall s, existsb magic (fin s) = false) ->
  forall title ops st flags, Stack.clean magic title = true ->
    Stack.run fin magic (Stack.init title) ops = Some st -> (length st <= S (length flags))%nat ->
    exists f t, Stack.finale fin magic flags st = Some [f] /\ Stack.result fin [f] = Some t /\
                StackProofs.GoodRoot magic t.
Proof. exact StackProofs.parse_returns_a_good_tree_and_leaves_only_the_root. Qed.
Print Assumptions c01_any_handler_behaviour_gives_a_well_formed_tree.

(* the invariant, operation by operation *)
Theorem c01_every_primitive_operation_keeps_the_stack_well_formed :
  forall (fin : Stack.text -> Stack.text) (magic : BinNums.N -> bool),
    (forall s, existsb magic (fin s) = false) ->
  forall st o st', StackProofs.Inv magic st -> Stack.step fin magic st o = Some st' -> StackProofs.Inv magic st'.
Proof. exact StackProofs.step_Inv. Qed.
Print Assumptions c01_every_primitive_operation_keeps_the_stack_well_formed.

(* The list and table clauses.  Where a node may be put is the handlers' choice, so these clauses are invariants of
   GUARDED operation sequences only (Stack.guard: a node is only pushed onto a permitted parent - LIST_ITEM onto LIST and
   nothing else onto LIST, rows and captions onto TABLE, cells onto TABLE_ROW - and no text is appended to a LIST); the
   replay of recorded runs checks that the real handlers' sequences are guarded (Stack.check_trace, result 4).  For every
   guarded sequence followed by the closing loop, the returned tree is StackPlacedProofs.PlacedRoot: at every depth and
   in children, arguments, definitions and list-item heads alike, every node satisfies Stack.placed_ok under its parent
   and a LIST holds no text. *)
From WTP Require Proofs.StackPlacedProofs.
Theorem c01_guarded_handlers_place_list_and_table_nodes :
  forall (fin : Stack.text -> Stack.text) (magic : BinNums.N -> bool) title ops st flags st' t,
    Stack.run_guarded fin magic (Stack.init title) ops = Some st -> Stack.finale fin magic flags st = Some st' ->
    Stack.result fin st' = Some t -> StackPlacedProofs.PlacedRoot t.
Proof. exact StackPlacedProofs.guarded_sequences_place_list_and_table_nodes. Qed.
Print Assumptions c01_guarded_handlers_place_list_and_table_nodes.

(* the premises are met by a real run: "[[c|d]]s {{lc:A}} ''" as the parser performs it *)
Example c01_a_recorded_run :
  let fin := Stack.fin_of [] in
  let ops := [Stack.OPush LINK; Stack.OText [99%N]; Stack.OMerge; Stack.OToLargs false; Stack.OText [100%N];
              Stack.OPop false false false; Stack.OTrail [115%N]; Stack.OText [32%N]; Stack.OPush TEMPLATE;
              Stack.OText [108%N; 99%N]; Stack.OMerge; Stack.OToLargs true; Stack.OText [65%N]; Stack.OPop false false false;
              Stack.OText [32%N]; Stack.OPush ITALIC] in
  exists st, Stack.run fin Stack.magic_range (Stack.init [84%N]) ops = Some st /\ length st = 2%nat /\
             Stack.finale fin Stack.magic_range [(false, false)] st
             = Some [Stack.mkframe ROOT [[Stack.IStr [84%N]]]
                       [Stack.INode (Stack.Nd LINK [[Stack.IStr [99%N]]; [Stack.IStr [100%N]]] [Stack.IStr [115%N]] None None);
                        Stack.IStr [32%N];
                        Stack.INode (Stack.Nd PARSER_FN [[Stack.IStr [108%N; 99%N]]; [Stack.IStr [65%N]]] [] None None);
                        Stack.IStr [32%N]] None].
Proof. eexists. split; [vm_compute; reflexivity | split; vm_compute; reflexivity]. Qed.

(* The table clause of well-formedness, for EVERY sequence of table tokens and text in any order (malformed ones
   included: cells outside rows, captions after rows, ends without starts, ...): whenever the table handlers, as
   transcribed in Model/Tables.v, return a tree, rows and captions sit directly under a table and cells directly
   under a row, at the top level and at every depth.  (Invariant of the parser stack: a node is only ever pushed
   onto a permitted parent, and closing a node keeps it under that parent.) *)
Theorem c01_table_trees_are_well_formed :
  forall ts ch, Tables.parse ts = Some ch ->
    forallb (TablesInvProofs.child_ok Tables.KBottom) ch = true.
Proof. exact TablesInvProofs.parsed_trees_are_well_formed. Qed.
Print Assumptions c01_table_trees_are_well_formed.

(* the invariant itself, handler by handler *)
Theorem c01_table_handlers_keep_the_stack_well_formed :
  forall st t st', TablesInvProofs.Good st -> Tables.step st t = Some st' -> TablesInvProofs.Good st'.
Proof. exact TablesInvProofs.step_ok. Qed.
Print Assumptions c01_table_handlers_keep_the_stack_well_formed.

Example c01_a_malformed_table_soup :
  let ts := [Tables.TBar true; Tables.TStart; Tables.TBang2; Tables.TCaption; Tables.TText (1%nat, true); Tables.TBar2;
             Tables.TStart; Tables.TRow; Tables.TRow; Tables.TBang true; Tables.TCaption; Tables.TEnd; Tables.TBar true; Tables.TEnd; Tables.TEnd] in
  exists ch, Tables.parse ts = Some ch /\ forallb (TablesInvProofs.child_ok Tables.KBottom) ch = true.
Proof. eexists. split; [vm_compute; reflexivity | reflexivity]. Qed.

Theorem c01_merge_no_adjacent_strings :
  forall A S cat is_empty fin (l : list (mchild A S)),
    adj_free A S (merge_str_children A S cat is_empty fin l) false.
Proof. intros. apply merge_adj_free. Qed.
Print Assumptions c01_merge_no_adjacent_strings.

Theorem c01_merge_no_empty_string :
  forall A S cat is_empty fin (l : list (mchild A S)) s,
    In (MStr A S s) (merge_str_children A S cat is_empty fin l) -> is_empty s = false.
Proof. intros A S cat is_empty fin l s. apply merge_no_empty. Qed.
Print Assumptions c01_merge_no_empty_string.

Theorem c01_merge_keeps_nodes :
  forall A S cat is_empty fin (l : list (mchild A S)),
    nodes A S (merge_str_children A S cat is_empty fin l) = nodes A S l.
Proof. intros. apply merge_nodes. Qed.
Print Assumptions c01_merge_keeps_nodes.

Theorem c01_merge_keeps_text :
  forall A S cat is_empty fin (l : list (mchild A S)),
    strs A S (merge_str_children A S cat is_empty fin l)
    = filter (fun s => negb (is_empty s)) (map fin (runs A S cat l None)).
Proof. intros. apply merge_strs. Qed.
Print Assumptions c01_merge_keeps_text.

(* BEGIN PINS (tools/repin.py) *)
From WTP Require Import Gen.GenPins.
Module Pins.
Import String.
(* The models of this property were transcribed from: parser.py:_parser_merge_str_children, parser.py:_parser_push, parser.py:_parser_pop, parser.py:parse_encoded.
   Gen/GenPins.v holds the digests of these functions in the current source (translate/pins.py: syntax tree without
   docstrings, comments and layout).  A different digest means that the model is no longer known to describe the
   code; the check then reports the broken tie and looks for a failing input. *)
Theorem c01_models_describe_the_current_source :
  (pin_merge_str_children, pin_parser_push, pin_parser_pop, pin_parse_encoded) = ("1df751192f3d260a", "4134258ce540755b", "de4891a2de6127c6", "7f89b6f3e4611a82")%string.
Proof. reflexivity. Qed.
Print Assumptions c01_models_describe_the_current_source.
End Pins.
(* END PINS *)
