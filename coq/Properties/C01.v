(** C01 — parse() is total and always returns a well-formed tree.
    PARTIAL.  What is proved (for all child lists, any string type and any
    finalisation function): the step that every push and pop of the parser
    performs on the current node's children, _parser_merge_str_children
    (model: Model/Tree.v [merge_str_children]), leaves no two adjacent strings
    and no empty string, keeps the nodes in order, and the remaining strings
    are exactly the finalised texts of the maximal string runs.
    What is decided by execution on every run: totality of parse() and the
    full well-formedness predicate [Model.Tree.wf], which is a Coq function
    evaluated (vm_compute) on every tree the real parser returns for token
    soups, grammar documents, mutated test pages and nesting ladders.  Of the
    ~25 token handlers the table handlers are modelled (Model/Tables.v, tied
    to the parser by C03's check): for them the table clause of
    well-formedness is an invariant proved for every token sequence.  The
    other handlers and the regex tokenizer are not modelled. *)
From Coq Require Import List Bool.
Import ListNotations.
From WTP Require Import Model.Tree Proofs.TreeProofs.
From WTP Require Model.Tables Proofs.TablesInvProofs.

(* The table clause of well-formedness, for EVERY sequence of table tokens and text in any order (malformed ones
   included: cells outside rows, captions after rows, ends without starts, ...): whenever the table handlers, as
   transcribed in Model/Tables.v, return a tree, rows and captions sit directly under a table and cells directly
   under a row, at the top level and at every depth.  (Invariant of the parser stack: a node is only ever pushed
   onto a permitted parent, and closing a node keeps it under that parent.) *)
Theorem c01_table_trees_are_well_formed :
  forall ts ch, Tables.parse ts = Some ch ->
    forallb (TablesInvProofs.child_ok Tables.KBottom) ch = true.
Proof. exact TablesInvProofs.parsed_trees_are_well_formed. Qed.
Print Assumptions c01_table_trees_are_well_formed.

(* the invariant itself, handler by handler *)
Theorem c01_table_handlers_keep_the_stack_well_formed :
  forall st t st', TablesInvProofs.Good st -> Tables.step st t = Some st' -> TablesInvProofs.Good st'.
Proof. exact TablesInvProofs.step_ok. Qed.
Print Assumptions c01_table_handlers_keep_the_stack_well_formed.

Example c01_a_malformed_table_soup :
  let ts := [Tables.TBar true; Tables.TStart; Tables.TBang2; Tables.TCaption; Tables.TText (1%nat, true); Tables.TBar2;
             Tables.TStart; Tables.TRow; Tables.TRow; Tables.TBang true; Tables.TCaption; Tables.TEnd; Tables.TBar true; Tables.TEnd; Tables.TEnd] in
  exists ch, Tables.parse ts = Some ch /\ forallb (TablesInvProofs.child_ok Tables.KBottom) ch = true.
Proof. eexists. split; [vm_compute; reflexivity | reflexivity]. Qed.

Theorem c01_merge_no_adjacent_strings :
  forall A S cat is_empty fin (l : list (mchild A S)),
    adj_free A S (merge_str_children A S cat is_empty fin l) false.
Proof. intros. apply merge_adj_free. Qed.
Print Assumptions c01_merge_no_adjacent_strings.

Theorem c01_merge_no_empty_string :
  forall A S cat is_empty fin (l : list (mchild A S)) s,
    In (MStr A S s) (merge_str_children A S cat is_empty fin l) -> is_empty s = false.
Proof. intros A S cat is_empty fin l s. apply merge_no_empty. Qed.
Print Assumptions c01_merge_no_empty_string.

Theorem c01_merge_keeps_nodes :
  forall A S cat is_empty fin (l : list (mchild A S)),
    nodes A S (merge_str_children A S cat is_empty fin l) = nodes A S l.
Proof. intros. apply merge_nodes. Qed.
Print Assumptions c01_merge_keeps_nodes.

Theorem c01_merge_keeps_text :
  forall A S cat is_empty fin (l : list (mchild A S)),
    strs A S (merge_str_children A S cat is_empty fin l)
    = filter (fun s => negb (is_empty s)) (map fin (runs A S cat l None)).
Proof. intros. apply merge_strs. Qed.
Print Assumptions c01_merge_keeps_text.

(* BEGIN PINS (tools/repin.py) *)
From WTP Require Import Gen.GenPins.
Module Pins.
Import String.
(* The models of this property were transcribed from: parser.py:_parser_merge_str_children.
   Gen/GenPins.v holds the digests of these functions in the current source (translate/pins.py: syntax tree without
   docstrings, comments and layout).  A different digest means that the model is no longer known to describe the
   code; the check then reports the broken tie and looks for a failing input. *)
Theorem c01_models_describe_the_current_source :
  pin_merge_str_children = "1df751192f3d260a"%string.
Proof. reflexivity. Qed.
Print Assumptions c01_models_describe_the_current_source.
End Pins.
(* END PINS *)
