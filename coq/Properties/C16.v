(** C16 — the expansion path is restored by every call that returns.
    [Gen.GenSkeleton] is regenerated from /repo's core.py on every run by
    translate/skeleton.py; if the source changes so that some path through
    Wtp.expand (or one of its nested functions) leaves a push without its pop,
    [c16_skeleton_checks] stops checking. *)
From Coq Require Import List ZArith Bool Lia.
From WTP Require Import Model.Skeleton Proofs.SkeletonProofs Gen.GenSkeleton.
Import ListNotations.
Open Scope Z_scope.

(* generic: the summary-based check is sound for every terminating execution *)
Theorem c16_check_sound :
  forall funs, check_all funs = true ->
  forall f d k d', (f < length funs)%nat -> exec_blk funs (body funs f) d (R k d') ->
    (k = KNorm \/ k = KRet) /\ d' = d.
Proof. exact check_sound. Qed.
Print Assumptions c16_check_sound.

(* the skeleton extracted from the current source passes the check *)
Theorem c16_skeleton_checks : translated_ok = true /\ check_all funs = true.
Proof. split; vm_compute; reflexivity. Qed.
Print Assumptions c16_skeleton_checks.

(* hence: whatever path expand() and its helpers take, if they return the
   expansion path has the depth it had on entry *)
Theorem c16_expand_balanced :
  forall f d k d', (f < length funs)%nat -> exec_blk funs (body funs f) d (R k d') -> d' = d.
Proof. intros f d k d' Hf He.
  exact (proj2 (check_sound funs (proj2 c16_skeleton_checks) f d k d' Hf He)). Qed.
Print Assumptions c16_expand_balanced.

(* BEGIN PINS (tools/repin.py) *)
From WTP Require Import Gen.GenPins.
Module Pins.
Import String.
(* The models of this property were transcribed from: luaexec.py:call_lua_sandbox, core.py:Wtp.start_page.
   Gen/GenPins.v holds the digests of these functions in the current source (translate/pins.py: syntax tree without
   docstrings, comments and layout).  A different digest means that the model is no longer known to describe the
   code; the check then reports the broken tie and looks for a failing input. *)
Theorem c16_models_describe_the_current_source :
  (pin_call_lua_sandbox, pin_start_page) = ("a2f9cd781dc56d8f", "8dfb9666f50592b8")%string.
Proof. reflexivity. Qed.
Print Assumptions c16_models_describe_the_current_source.
End Pins.
(* END PINS *)
