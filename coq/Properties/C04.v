(** C04 — template expansion agrees with the reference transclusion semantics
    (model: Model/Expand.v, tied to Wtp.expand by per-run correspondence;
    proofs: Proofs/ExpandProofs.v).
    PARTIAL: the theorems below state the clauses of the property that are
    proved for the model for all inputs; the equality of the whole model with
    an independent environment-based semantics (c04_refines) is not proved —
    it is checked per run against the reference semantics in
    harness/gen_wt.py on generated libraries and pages. *)
From Coq Require Import List NArith Bool Arith.
From Coq Require Import String.
From WTP Require Import Base.Str Model.ArgViews Model.Expand Proofs.ExpandProofs Model.Body Proofs.BodyProofs Gen.GenBody.
Import ListNotations.
Open Scope N_scope.

(* later duplicates win, other keys are unaffected (the argument map is a dict) *)
Theorem c04_later_duplicate_wins :
  forall m k v, am_get (am_set m k v) k = Some v.
Proof. exact am_get_set_same. Qed.
Print Assumptions c04_later_duplicate_wins.

Theorem c04_other_keys_unaffected :
  forall m k k' v, key_eqb k' k = false -> am_get (am_set m k v) k' = am_get m k'.
Proof. exact am_get_set_other. Qed.
Print Assumptions c04_other_keys_unaffected.

(* text without calls, parameters or links is returned unchanged by both passes
   and by finalisation, whatever the library, options and expansion path *)
Theorem c04_plain_text_unchanged :
  forall pfnames lib opts e, forallb is_ch e = true ->
  forall fuel stk ea am, (length e < fuel)%nat ->
    expand_recurse pfnames lib opts fuel stk ea e = Some e /\
    expand_args pfnames lib opts fuel stk am e = Some e.
Proof. intros. split; [apply expand_recurse_plain | apply expand_args_plain]; assumption. Qed.
Print Assumptions c04_plain_text_unchanged.

Theorem c04_finalize_plain :
  forall nwmap s fuel, (0 < fuel)%nat -> finalize fuel nwmap (chars s) = s.
Proof. exact finalize_plain. Qed.
Print Assumptions c04_finalize_plain.

(* a result starting with a list/table marker gets exactly one newline prepended, nothing else changes *)
Theorem c04_newline_before_block_marker :
  forall e, add_newline e = if starts_block e then Ch 10 :: e else e.
Proof. exact add_newline_spec. Qed.
Print Assumptions c04_newline_before_block_marker.


(* The part of a template page that is transcluded (Model/Body.v: the six passes of Wtp._template_to_body).
   For EVERY arrangement of plain text, comments, noinclude and includeonly elements and onlyinclude elements
   (themselves arrangements of the former), with texts free of angle brackets: if there is an onlyinclude
   element only the contents of the onlyinclude elements count, otherwise everything outside them; of that,
   comments and noinclude elements are dropped and includeonly elements are unwrapped. *)
Theorem c04_includable_part :
  forall segs, Forall seg_clean segs -> template_to_body (render segs) = includable segs.
Proof. exact template_to_body_includable. Qed.
Print Assumptions c04_includable_part.


(* The passes Model/Body.v models are the passes the current source has: Gen/GenBody.v is regenerated from
   Wtp._template_to_body on every run (translate/body.py refuses any other statement in that function). *)
Theorem c04_body_passes_are_the_modelled_ones :
  passes = [ (PSub, "(?s)<!--.*?-->");
             (PSub, "(?is)<noinclude\s*>.*?</noinclude\s*>");
             (PSub, "(?is)<noinclude\s*>.*");
             (PSub, "(?s)<!--.*");
             (PGroups, "(?is)<onlyinclude\s*>(.*?)</onlyinclude\s*>|<onlyinclude\s*/>");
             (PSub, "(?is)<\s*(/\s*)?includeonly\s*(/\s*)?>") ]%string.
Proof. reflexivity. Qed.
Print Assumptions c04_body_passes_are_the_modelled_ones.

(* BEGIN PINS (tools/repin.py) *)
From WTP Require Import Gen.GenPins.
Module Pins.
Import String.
(* The models of this property were transcribed from: core.py:Wtp.expand, core.py:Wtp._finalize_expand, parserfns.py:if_fn, parserfns.py:ifeq_fn, parserfns.py:switch_fn.
   Gen/GenPins.v holds the digests of these functions in the current source (translate/pins.py: syntax tree without
   docstrings, comments and layout).  A different digest means that the model is no longer known to describe the
   code; the check then reports the broken tie and looks for a failing input. *)
Theorem c04_models_describe_the_current_source :
  (pin_expand, pin_finalize_expand, pin_if_fn, pin_ifeq_fn, pin_switch_fn) = ("f2db964246b00d81", "6e6193b54ac95d13", "fa2797b21d9a63fb", "e1aa7edc9b6102c6", "70a23bf19ce6b825")%string.
Proof. reflexivity. Qed.
Print Assumptions c04_models_describe_the_current_source.
End Pins.
(* END PINS *)
