From WTP Require Import Model.Expand.
