(** C04 — template expansion agrees with the reference transclusion semantics
    (model: Model/Expand.v, tied to Wtp.expand by per-run correspondence;
    proofs: Proofs/ExpandProofs.v).
    PARTIAL: the theorems below state the clauses of the property that are
    proved for the model for all inputs; the equality of the whole model with
    an independent environment-based semantics (c04_refines) is not proved —
    it is checked per run against the reference semantics in
    harness/gen_wt.py on generated libraries and pages. *)
From Coq Require Import List NArith Bool Arith.
From Coq Require Import String.
From WTP Require Import Base.Str Model.ArgViews Model.Expand Proofs.ExpandProofs Model.Body Proofs.BodyProofs Gen.GenBody.
Import ListNotations.
Open Scope N_scope.

(* later duplicates win, other keys are unaffected (the argument map is a dict) *)
Theorem c04_later_duplicate_wins :
  forall m k v, am_get (am_set m k v) k = Some v.
Proof. exact am_get_set_same. Qed.
Print Assumptions c04_later_duplicate_wins.

Theorem c04_other_keys_unaffected :
  forall m k k' v, key_eqb k' k = false -> am_get (am_set m k v) k' = am_get m k'.
Proof. exact am_get_set_other. Qed.
Print Assumptions c04_other_keys_unaffected.

(* text without calls, parameters or links is returned unchanged by both passes
   and by finalisation, whatever the library, options and expansion path *)
Theorem c04_plain_text_unchanged :
  forall pfnames lib opts e, forallb is_ch e = true ->
  forall fuel stk ea am, (length e < fuel)%nat ->
    expand_recurse pfnames lib opts fuel stk ea e = Some e /\
    expand_args pfnames lib opts fuel stk am e = Some e.
Proof. intros. split; [apply expand_recurse_plain | apply expand_args_plain]; assumption. Qed.
Print Assumptions c04_plain_text_unchanged.

Theorem c04_finalize_plain :
  forall nwmap s fuel, (0 < fuel)%nat -> finalize fuel nwmap (chars s) = s.
Proof. exact finalize_plain. Qed.
Print Assumptions c04_finalize_plain.

(* a result starting with a list/table marker gets exactly one newline prepended, nothing else changes *)
Theorem c04_newline_before_block_marker :
  forall e, add_newline e = if starts_block e then Ch 10 :: e else e.
Proof. exact add_newline_spec. Qed.
Print Assumptions c04_newline_before_block_marker.


(* The part of a template page that is transcluded (Model/Body.v: the six passes of Wtp._template_to_body).
   For EVERY arrangement of plain text, comments, noinclude and includeonly elements and onlyinclude elements
   (themselves arrangements of the former), with texts free of angle brackets: if there is an onlyinclude
   element only the contents of the onlyinclude elements count, otherwise everything outside them; of that,
   comments and noinclude elements are dropped and includeonly elements are unwrapped. *)
Theorem c04_includable_part :
  forall segs, Forall seg_clean segs -> template_to_body (render segs) = includable segs.
Proof. exact template_to_body_includable. Qed.
Print Assumptions c04_includable_part.


(* The passes Model/Body.v models are the passes the current source has: Gen/GenBody.v is regenerated from
   Wtp._template_to_body on every run (translate/body.py refuses any other statement in that function). *)
Theorem c04_body_passes_are_the_modelled_ones :
  passes = [ (PSub, "(?s)<!--.*?-->");
             (PSub, "(?is)<noinclude\s*>.*?</noinclude\s*>");
             (PSub, "(?is)<noinclude\s*>.*");
             (PSub, "(?s)<!--.*");
             (PGroups, "(?is)<onlyinclude\s*>(.*?)</onlyinclude\s*>|<onlyinclude\s*/>");
             (PSub, "(?is)<\s*(/\s*)?includeonly\s*(/\s*)?>") ]%string.
Proof. reflexivity. Qed.
Print Assumptions c04_body_passes_are_the_modelled_ones.


(** The transclusion rule itself, on the flat fragment (Model/FlatCall.v): a call {{name|args}} on a page, name and
    arguments plain text, to a template whose body is plain text and parameter references {{{k}}} / {{{k|default}}}
    with plain names and defaults (or to no template at all).  For every library, every such call and all
    sufficiently large fuel the expander model - name expansion, parser-function detection, loop detection, the
    argument dictionary with its expansion-path frames, the two passes over the body, the newline rules and
    finalisation - returns exactly: the body with every parameter replaced by the value bound to its key (unnamed
    arguments numbered from 1 and verbatim, named ones trimmed, numeric names are numbers, the last binding of a key
    wins), else by its default, else left literal; a link to the template page when the template is missing; one
    newline prepended when the result starts with a list or table marker.  One trailing line break of a bound
    value is dropped (the known finding c04:trailing-newline-dropped): without such values the result is
    MediaWiki's (second theorem), with them it is not (third). *)
From WTP Require Import Model.FlatCall Proofs.FlatCallProofs Gen.GenData.

Theorem c04_flat_calls_follow_the_transclusion_rule :
  forall pfnames lib opts nwmap name args,
    flat_ok pfnames lib name args = true -> o_tfn opts = [] -> o_pfn opts = [] ->
    exists F, forall fuel, (F <= fuel)%nat ->
      expand_page pfnames nwmap lib opts false fuel [T (chars name :: args)] = Some (codes (result_of lib name args)).
Proof. exact flat_page. Qed.
Print Assumptions c04_flat_calls_follow_the_transclusion_rule.

(* ... and a page of text and any number of such calls: the text stays, every call is replaced by the rule's result *)
Theorem c04_pages_of_flat_calls_follow_the_transclusion_rule :
  forall pfnames lib opts nwmap page,
    forallb (flat_item pfnames lib) page = true -> o_tfn opts = [] -> o_pfn opts = [] ->
    exists F, forall fuel, (F <= fuel)%nat ->
      expand_page pfnames nwmap lib opts false fuel page = Some (codes (page_result lib page)).
Proof. exact flat_pages. Qed.
Print Assumptions c04_pages_of_flat_calls_follow_the_transclusion_rule.

(* "Arguments are expanded in the caller's frame": a call whose arguments hold text and flat calls (to other templates;
   a named argument has a plain name).  The value bound to each parameter is the argument with every call in it replaced
   by that call's result (FlatCall.bind_nested: unnamed ones numbered and verbatim, named ones trimmed after the
   replacement), and the outer template's body is instantiated with these values - for every library, every such call
   and all sufficiently large fuel. *)
Theorem c04_calls_in_arguments_are_expanded_in_the_callers_frame :
  forall pfnames lib opts name args,
    nested_ok pfnames lib name args = true -> o_tfn opts = [] -> o_pfn opts = [] ->
    exists F, forall fuel, (F <= fuel)%nat ->
      expand_T pfnames lib opts fuel [FTitle] true (chars name :: args) = Some (nested_result lib name args).
Proof. exact nested_call. Qed.
Print Assumptions c04_calls_in_arguments_are_expanded_in_the_callers_frame.

(* {{o| {{i|x}} |k= {{i|y}} }} with Template:o = "<{{{1}}}/{{{k}}}>" and Template:i = "[{{{1}}}]": "< [x] /[y]>" *)
Example c04_nested_example :
  let lib := [mktpl [79] [Ch 60; A [chars [49]]; Ch 47; A [chars [107]]; Ch 62] false;
              mktpl [73] [Ch 91; A [chars [49]]; Ch 93] false] in
  let args := [[Ch 32; T [chars [105]; chars [120]]; Ch 32]; [Ch 107; Ch 61; Ch 32; T [chars [105]; chars [121]]; Ch 32]] in
  nested_ok [] lib [111] args = true /\
  codes (nested_result lib [111] args) = [60; 32; 91; 120; 93; 32; 47; 91; 121; 93; 62].
Proof. split; vm_compute; reflexivity. Qed.

(* "Body encode -> substitute -> recursive expand with a new parent frame": a template whose body holds, besides text and
   parameter references, calls to other templates with plain names and arguments.  The call gives the body with its
   parameters substituted and every call in it replaced by that call's result (FlatCall.body_calls_result); one trailing
   line break of each argument of such a call is dropped first (the known finding c04:trailing-newline-dropped, visible
   in FlatCall.body_subst). *)
Theorem c04_calls_in_a_template_body_are_expanded_after_substitution :
  forall pfnames lib opts name args,
    body_calls_call_ok pfnames lib name args = true -> o_tfn opts = [] -> o_pfn opts = [] ->
    exists F, forall fuel, (F <= fuel)%nat ->
      expand_T pfnames lib opts fuel [FTitle] true (chars name :: args) = Some (body_calls_result lib name args).
Proof. exact body_calls_call. Qed.
Print Assumptions c04_calls_in_a_template_body_are_expanded_after_substitution.

(* {{o|x}} with Template:o = "<{{i|a}}{{{1}}}>" and Template:i = "[{{{1}}}]": "<[a]x>" *)
Example c04_body_calls_example :
  let lib := [mktpl [79] [Ch 60; T [chars [105]; chars [97]]; A [chars [49]]; Ch 62] false;
              mktpl [73] [Ch 91; A [chars [49]]; Ch 93] false] in
  body_calls_call_ok [] lib [111] [chars [120]] = true /\
  codes (body_calls_result lib [111] [chars [120]]) = [60; 91; 97; 93; 120; 62].
Proof. split; vm_compute; reflexivity. Qed.

(* Both levels at once: calls in the arguments of a call (expanded in the caller's frame) whose template has calls in its
   body (expanded after the substitution, in the new frame). *)
Theorem c04_two_levels_of_calls :
  forall pfnames lib opts name args,
    two_level_ok pfnames lib name args = true -> o_tfn opts = [] -> o_pfn opts = [] ->
    exists F, forall fuel, (F <= fuel)%nat ->
      expand_T pfnames lib opts fuel [FTitle] true (chars name :: args) = Some (two_level_result lib name args).
Proof. exact two_level_call. Qed.
Print Assumptions c04_two_levels_of_calls.

(* The whole two-level grammar: calls in the arguments, and in the body calls whose arguments hold parameter references.
   The parameters are written into the argument texts of the body's calls first; the calls are then made with these
   texts.  This is the code's order - it is why a value containing "=" turns an unnamed argument of such a call into a
   named one (the known finding c04:substituted-value-with-equals-is-resplit, second example below): the rule proved here
   is the rule the code follows, stated without fuel or path, not MediaWiki's on that point. *)
Theorem c04_parameters_in_the_arguments_of_body_calls :
  forall pfnames lib opts name args,
    body_params_call_ok pfnames lib name args = true -> o_tfn opts = [] -> o_pfn opts = [] ->
    exists F, forall fuel, (F <= fuel)%nat ->
      expand_T pfnames lib opts fuel [FTitle] true (chars name :: args) = Some (body_params_result lib name args).
Proof. exact body_params_call. Qed.
Print Assumptions c04_parameters_in_the_arguments_of_body_calls.

(* Template:t = "{{u|{{{1}}}}}", Template:u = "[{{{1|none}}}/{{{a|none}}}]": {{t|x}} gives "[x/none]"; {{t|1=a=b}} gives
   "[none/b]" - the substituted value "a=b" was split at "=" (MediaWiki: "[a=b/none]") *)
Example c04_body_params_example :
  let u := [Ch 91; A [chars [49]; chars [110; 111; 110; 101]]; Ch 47; A [chars [97]; chars [110; 111; 110; 101]]; Ch 93] in
  let lib := [mktpl [84] [T [chars [117]; [A [chars [49]]]]] false; mktpl [85] u false] in
  body_params_call_ok [] lib [116] [chars [120]] = true /\
  codes (body_params_result lib [116] [chars [120]]) = [91; 120; 47; 110; 111; 110; 101; 93] /\
  body_params_call_ok [] lib [116] [chars [49; 61; 97; 61; 98]] = true /\
  codes (body_params_result lib [116] [chars [49; 61; 97; 61; 98]]) = [91; 110; 111; 110; 101; 47; 98; 93].
Proof. repeat split; vm_compute; reflexivity. Qed.

(* #if with plain arguments, wherever it stands (any expansion path below the depth limit, with or without full
   expansion): the second argument when the first is not blank, else the third; trimmed; absent arguments are empty *)
Theorem c04_if_with_plain_arguments :
  forall pfnames lib opts stk ea cond more,
    (length stk < 100)%nat -> plain cond = true -> forallb plain more = true -> o_parserfns opts = true ->
    exists F, forall fuel, (F <= fuel)%nat ->
      expand_T pfnames lib opts fuel stk ea ((if_head ++ cond)%list :: more) = Some (if_result cond more).
Proof. exact if_plain. Qed.
Print Assumptions c04_if_with_plain_arguments.

Example c04_if_example :      (* {{#if: |x| *y }} gives "\n*y" *)
  codes (if_result (chars [32]) [chars [120]; chars [32; 42; 121; 32]]) = [10; 42; 121].
Proof. reflexivity. Qed.

(* #ifeq with plain arguments: the third argument when the first two, trimmed, are equal - numerically when both are numbers
   (ParserFns.mw_equal: 01 = 1 = 1.0 = 1e0, 0 = -0), as text otherwise - else the fourth *)
Theorem c04_ifeq_with_plain_arguments :
  forall pfnames lib opts stk ea x more,
    (length stk < 100)%nat -> plain x = true -> forallb plain more = true -> o_parserfns opts = true ->
    exists F, forall fuel, (F <= fuel)%nat ->
      expand_T pfnames lib opts fuel stk ea ((ifeq_head ++ x)%list :: more) = Some (ifeq_result x more).
Proof. exact ifeq_plain. Qed.
Print Assumptions c04_ifeq_with_plain_arguments.

(* #if with calls in its branches: the chosen branch is expanded where the #if stands (same expansion path plus the
   function's frames, so loop detection sees the same templates), every call in it replaced by its result; the branch not
   chosen has no influence.  The fuel threshold does not depend on the place. *)
Theorem c04_if_with_calls_in_its_branches :
  forall pfnames lib opts cond more,
    if_calls_ok pfnames lib cond more = true -> o_parserfns opts = true -> o_tfn opts = [] -> o_pfn opts = [] ->
    exists F, forall stk ea fuel, (length stk < 98)%nat -> forallb (fresh_items stk) more = true -> (F <= fuel)%nat ->
      expand_T pfnames lib opts fuel stk ea ((if_head ++ cond)%list :: more) = Some (if_calls_result lib cond more).
Proof. exact if_calls. Qed.
Print Assumptions c04_if_with_calls_in_its_branches.

Example c04_if_calls_example :     (* Template:i = "[{{{1}}}]": {{#if: x | a{{i|p}} | {{i|q}} }} gives "a[p]", with a blank condition "[q]" *)
  let lib := [mktpl [73] [Ch 91; A [[Ch 49]]; Ch 93] false] in
  let more := [[Ch 97; T [[Ch 105]; [Ch 112]]]; [Ch 32; T [[Ch 105]; [Ch 113]]; Ch 32]] in
  if_calls_ok [] lib [Ch 120] more = true /\
  codes (if_calls_result lib [Ch 120] more) = [97; 91; 112; 93] /\ codes (if_calls_result lib [Ch 32] more) = [91; 113; 93].
Proof. vm_compute. repeat split. Qed.

(* ... and with calls in the condition too (full expansion): the condition is expanded first, with the function's name, and
   its result - every call replaced - decides which branch is expanded *)
Theorem c04_if_with_calls_in_its_condition :
  forall pfnames lib opts cond more,
    if_cond_calls_ok pfnames lib cond more = true -> o_parserfns opts = true -> o_tfn opts = [] -> o_pfn opts = [] ->
    exists F, forall stk fuel, (length stk < 98)%nat -> fresh_items stk cond = true ->
      forallb (fresh_items stk) more = true -> (F <= fuel)%nat ->
      expand_T pfnames lib opts fuel stk true ((if_head ++ cond)%list :: more) = Some (if_cond_calls_result lib cond more).
Proof. exact if_cond_calls. Qed.
Print Assumptions c04_if_with_calls_in_its_condition.

Example c04_if_cond_calls_example :   (* Template:e = "", Template:i = "[{{{1}}}]": {{#if: {{e}} | yes | {{i|q}} }} gives "[q]" *)
  let lib := [mktpl [69] [] false; mktpl [73] [Ch 91; A [[Ch 49]]; Ch 93] false] in
  let more := [[Ch 121; Ch 101; Ch 115]; [Ch 32; T [[Ch 105]; [Ch 113]]; Ch 32]] in
  if_cond_calls_ok [] lib [Ch 32; T [[Ch 101]]] more = true /\
  codes (if_cond_calls_result lib [Ch 32; T [[Ch 101]]] more) = [91; 113; 93] /\
  codes (if_cond_calls_result lib [T [[Ch 105]; [Ch 113]]] more) = [121; 101; 115].
Proof. vm_compute. repeat split. Qed.

(* ... the same for #ifeq (plain operands, branches of text and flat calls) and for #switch (plain subject and keys,
   values of text and flat calls): only the chosen branch or case value is expanded into the result *)
Theorem c04_ifeq_with_calls_in_its_branches :
  forall pfnames lib opts x more,
    ifeq_calls_ok pfnames lib x more = true -> o_parserfns opts = true -> o_tfn opts = [] -> o_pfn opts = [] ->
    exists F, forall stk ea fuel, (length stk < 98)%nat -> forallb (fresh_items stk) more = true -> (F <= fuel)%nat ->
      expand_T pfnames lib opts fuel stk ea ((ifeq_head ++ x)%list :: more) = Some (ifeq_calls_result lib x more).
Proof. exact ifeq_calls. Qed.
Print Assumptions c04_ifeq_with_calls_in_its_branches.

(* #ifeq with calls in its operands too (full expansion): both operands are expanded first and their results compared *)
Theorem c04_ifeq_with_calls_in_its_operands :
  forall pfnames lib opts x more,
    ifeq_full_ok pfnames lib x more = true -> o_parserfns opts = true -> o_tfn opts = [] -> o_pfn opts = [] ->
    exists F, forall stk fuel, (length stk < 98)%nat -> fresh_items stk x = true ->
      forallb (fresh_items stk) more = true -> (F <= fuel)%nat ->
      expand_T pfnames lib opts fuel stk true ((ifeq_head ++ x)%list :: more) = Some (ifeq_full_result lib x more).
Proof. exact ifeq_full. Qed.
Print Assumptions c04_ifeq_with_calls_in_its_operands.

Theorem c04_switch_with_calls_in_its_values :
  forall pfnames lib opts x cases,
    plain x = true -> forallb (case_calls_ok pfnames lib) cases = true ->
    o_parserfns opts = true -> o_tfn opts = [] -> o_pfn opts = [] ->
    exists F, forall stk ea fuel, (length stk < 98)%nat -> forallb (fun kv => fresh_items stk (snd kv)) cases = true ->
      (F <= fuel)%nat ->
      expand_T pfnames lib opts fuel stk ea ((switch_head ++ x)%list :: map mkcase cases)
      = Some (add_newline (switch_calls_result lib (strip_i x) cases None)).
Proof. exact switch_calls. Qed.
Print Assumptions c04_switch_with_calls_in_its_values.

(* ... and with calls in the subject of the #switch too (full expansion) *)
Theorem c04_switch_with_calls_in_its_subject :
  forall pfnames lib opts x cases,
    forallb (flat_item pfnames lib) x = true -> forallb (case_calls_ok pfnames lib) cases = true ->
    o_parserfns opts = true -> o_tfn opts = [] -> o_pfn opts = [] ->
    exists F, forall stk fuel, (length stk < 98)%nat -> fresh_items stk x = true ->
      forallb (fun kv => fresh_items stk (snd kv)) cases = true -> (F <= fuel)%nat ->
      expand_T pfnames lib opts fuel stk true ((switch_head ++ x)%list :: map mkcase cases)
      = Some (add_newline (switch_calls_result lib (strip_i (page_result lib x)) cases None)).
Proof. exact switch_full. Qed.
Print Assumptions c04_switch_with_calls_in_its_subject.

Example c04_switch_calls_example :   (* Template:i = "[{{{1}}}]": {{#switch: b | a = {{i|p}} | b = x{{i|q}} }} gives "x[q]" *)
  let lib := [mktpl [73] [Ch 91; A [[Ch 49]]; Ch 93] false] in
  let cases := [([Ch 97], [T [[Ch 105]; [Ch 112]]]); ([Ch 98], [Ch 120; T [[Ch 105]; [Ch 113]]])] in
  forallb (case_calls_ok [] lib) cases = true /\
  codes (switch_calls_result lib [Ch 98] cases None) = [120; 91; 113; 93] /\
  ifeq_calls_ok [] lib [Ch 49] [[Ch 48; Ch 49]; [T [[Ch 105]; [Ch 112]]]] = true /\
  codes (ifeq_calls_result lib [Ch 49] [[Ch 48; Ch 49]; [T [[Ch 105]; [Ch 112]]]]) = [91; 112; 93].
Proof. vm_compute. repeat split. Qed.

(* #switch with plain keyed cases: the value of the first case whose key equals the first argument (as numbers when both
   are numbers, else as text; both trimmed), else the value of the last "#default = v" case, else empty *)
Theorem c04_switch_with_plain_keyed_cases :
  forall pfnames lib opts stk ea x cases,
    (length stk < 100)%nat -> plain x = true -> forallb case_ok cases = true -> o_parserfns opts = true ->
    exists F, forall fuel, (F <= fuel)%nat ->
      expand_T pfnames lib opts fuel stk ea ((switch_head ++ x)%list :: map mkcase cases)
      = Some (add_newline (switch_result (strip_i x) cases None)).
Proof. exact switch_plain. Qed.
Print Assumptions c04_switch_with_plain_keyed_cases.

(* ... and when the last item has no "=", it is the default - also after an earlier "#default = v" (MediaWiki's rule,
   restored by fix 4429042): the value of the first keyed case that matches, else that last item, trimmed *)
Theorem c04_switch_with_a_trailing_default :
  forall pfnames lib opts stk ea x cases last,
    (length stk < 100)%nat -> plain x = true -> forallb case_ok cases = true -> bare_ok last = true ->
    o_parserfns opts = true ->
    exists F, forall fuel, (F <= fuel)%nat ->
      expand_T pfnames lib opts fuel stk ea ((switch_head ++ x)%list :: map mkcase cases ++ [last])%list
      = Some (add_newline (switch_trailing_result (strip_i x) cases last)).
Proof. exact switch_trailing. Qed.
Print Assumptions c04_switch_with_a_trailing_default.

Example c04_switch_trailing_example :     (* {{#switch: c | #default = D | c2 }} gives "c2", {{#switch: c | c = yes | c2 }} gives "yes" *)
  let cases := [(chars [35; 100; 101; 102; 97; 117; 108; 116], chars [68])] in
  forallb case_ok cases = true /\ bare_ok (chars [99; 50]) = true /\
  codes (switch_trailing_result (chars [99]) cases (chars [99; 50])) = [99; 50] /\
  codes (switch_trailing_result (chars [99]) [(chars [99], chars [121; 101; 115])] (chars [99; 50])) = [121; 101; 115].
Proof. vm_compute. repeat split. Qed.

Example c04_switch_example :     (* {{#switch: 02 | a = x | +2 = two | #default = d }} gives "two"; with 3 for 02 it gives "d" *)
  let cases := [(chars [32; 97; 32], chars [32; 120]); (chars [32; 43; 50; 32], chars [32; 116; 119; 111; 32]);
                (chars [32; 35; 100; 101; 102; 97; 117; 108; 116; 32], chars [32; 100; 32])] in
  forallb case_ok cases = true /\
  codes (switch_result (chars [48; 50]) cases None) = [116; 119; 111] /\ codes (switch_result (chars [51]) cases None) = [100].
Proof. repeat split; reflexivity. Qed.

Theorem c04_flat_rule_is_mediawikis_without_trailing_line_breaks :
  forall lib name args t, find_tpl lib name = Some t -> no_trailing_nl (bind_args args 1 []) = true ->
    result_of lib name args = mw_result_of lib name args.
Proof. exact flat_call_mediawiki. Qed.
Print Assumptions c04_flat_rule_is_mediawikis_without_trailing_line_breaks.

Theorem c04_flat_rule_with_trailing_line_break_refuted :
  exists pfnames lib name args, flat_ok pfnames lib name args = true /\
    codes (result_of lib name args) <> codes (mw_result_of lib name args).
Proof.
  exists [], [mktpl [115] [Ch 91; A [chars [49]]; Ch 93] false], [115], [chars [120; 10]].
  destruct trailing_newline_witness as (H1 & H2 & H3). split; [exact H1|]. rewrite H2, H3. discriminate.
Qed.
Print Assumptions c04_flat_rule_with_trailing_line_break_refuted.

(* the premises are met with the real parser-function table: {{b|x| k = v |2=w|k=z}} with Template:b = "*{{{2}}}-{{{k|d}}}-{{{q}}}" *)
Example c04_a_flat_call :
  let lib := [mktpl [98] (Ch 42 :: A [chars [50]] :: Ch 45 :: A [chars [107]; chars [100]] :: Ch 45 :: [A [chars [113]]]) false] in
  let args := [chars [120]; chars [32; 107; 32; 61; 32; 118; 32]; chars [50; 61; 119]; chars [107; 61; 122]] in
  flat_ok parser_functions lib [98] args = true /\
  codes (result_of lib [98] args) = [10; 42; 119; 45; 122; 45; 123; 123; 123; 113; 125; 125; 125].    (* "\n*w-z-{{{q}}}" *)
Proof. split; vm_compute; reflexivity. Qed.

(* BEGIN PINS (tools/repin.py) *)
From WTP Require Import Gen.GenPins.
Module Pins.
Import String.
(* The models of this property were transcribed from: core.py:Wtp.expand, core.py:Wtp._finalize_expand, parserfns.py:if_fn, parserfns.py:ifeq_fn, parserfns.py:switch_fn.
   Gen/GenPins.v holds the digests of these functions in the current source (translate/pins.py: syntax tree without
   docstrings, comments and layout).  A different digest means that the model is no longer known to describe the
   code; the check then reports the broken tie and looks for a failing input. *)
Theorem c04_models_describe_the_current_source :
  (pin_expand, pin_finalize_expand, pin_if_fn, pin_ifeq_fn, pin_switch_fn) = ("f2db964246b00d81", "6e6193b54ac95d13", "fa2797b21d9a63fb", "01728e159ad1fbf1", "405aca91ac8acede")%string.
Proof. reflexivity. Qed.
Print Assumptions c04_models_describe_the_current_source.
End Pins.
(* END PINS *)
