(** C18 — parser functions compute their documented values
    (models: Model/ParserFns.v; proofs: Proofs/ParserFnsProofs.v;
     Gen/GenLadder.v is regenerated from parserfns.py:expr_fn on every run,
     Gen/GenLocales.v from the shipped locale data). *)
From Coq Require Import List String NArith ZArith Bool Arith.
From WTP Require Import Base.Str Model.ParserFns Model.ExprParse Proofs.ParserFnsProofs Proofs.FormatnumProofs Proofs.ExprParseProofs Gen.GenLadder Gen.GenLocales.
Import ListNotations.
Local Open Scope list_scope.

(* The precedence ladder of #expr extracted from the current source is the
   documented one: or < and < comparison < round < additive < multiplicative
   < ^ < prefix functions < scientific e, every binary level left-associative.
   (Operator order inside a level is irrelevant.) *)
Definition documented_ladder : list (level_kind * list string) := [
  (BinaryLeft, ["or"]); (BinaryLeft, ["and"]);
  (BinaryLeft, ["="; "!="; "<>"; ">"; "<"; ">="; "<="]);
  (BinaryLeft, ["round"]); (BinaryLeft, ["+"; "-"]);
  (BinaryLeft, ["*"; "/"; "div"; "mod"]); (BinaryLeft, ["^"]);
  (PrefixFns, ["-"; "+"; "not"; "ceil"; "trunc"; "floor"; "abs"; "sqrt"; "exp"; "ln";
               "sin"; "cos"; "tan"; "acos"; "asin"; "atan"]);
  (BinaryLeft, ["e"])]%string.

Definition kind_eqb (a b : level_kind) : bool :=
  match a, b with BinaryLeft, BinaryLeft | PrefixFns, PrefixFns => true | _, _ => false end.
Definition incl_b (a b : list string) : bool := forallb (fun x => existsb (String.eqb x) b) a.
Fixpoint ladder_equiv (a b : list (level_kind * list string)) : bool :=
  match a, b with
  | [], [] => true
  | (k, o) :: a', (k', o') :: b' => kind_eqb k k' && incl_b o o' && incl_b o' o && ladder_equiv a' b'
  | _, _ => false
  end.

Theorem c18_ladder_is_documented : ladder_equiv ladder documented_ladder = true.
Proof. vm_compute. reflexivity. Qed.
Print Assumptions c18_ladder_is_documented.

(* padleft / padright: for every value, count and non-empty pad string the
   result is the value preceded (followed) by the first (cnt - |v|) characters
   of the pad string repeated cyclically, and has length max(cnt, |v|). *)
Theorem c18_padleft :
  forall v cnt pad, pad <> [] ->
    padleft v cnt pad = cyc (cnt - length v) pad ++ v /\
    length (padleft v cnt pad) = Nat.max cnt (length v).
Proof. exact padleft_spec. Qed.
Print Assumptions c18_padleft.

Theorem c18_padright :
  forall v cnt pad, pad <> [] ->
    padright v cnt pad = v ++ cyc (cnt - length v) pad /\
    length (padright v cnt pad) = Nat.max cnt (length v).
Proof. exact padright_spec. Qed.
Print Assumptions c18_padright.

Theorem c18_pad_cyclic :
  forall k pad i d, pad <> [] -> (i < k)%nat -> nth i (cyc k pad) d = nth (i mod length pad) pad d.
Proof. exact cyc_nth. Qed.
Print Assumptions c18_pad_cyclic.

(* #sub: always a contiguous piece; plain, from-the-end and to-the-end forms *)
Theorem c18_sub_substring :
  forall s start len, exists pre post, s = pre ++ sub_fn s start len ++ post.
Proof. exact sub_fn_substring. Qed.
Print Assumptions c18_sub_substring.

Theorem c18_sub_plain :
  forall s start len, (0 <= start <= Z.of_nat (length s))%Z -> (0 < len)%Z ->
    sub_fn s start len = firstn (Z.to_nat len) (skipn (Z.to_nat start) s).
Proof. exact sub_fn_plain. Qed.
Print Assumptions c18_sub_plain.

Theorem c18_sub_from_end :
  forall s k, (0 < k <= Z.of_nat (length s))%Z ->
    sub_fn s (- k) 0 = skipn (length s - Z.to_nat k) s.
Proof. exact sub_fn_from_end. Qed.
Print Assumptions c18_sub_from_end.

(* #pos / #rpos: the first and the last occurrence of the needle at or after the offset; no result means no occurrence
   (StringFnsProofs.occurs needle s k: the needle is a prefix of s from position k) *)
From WTP Require Import Proofs.StringFnsProofs.
Theorem c18_pos_is_the_first_occurrence :
  forall needle s offset j, find_from needle s offset = Some j ->
    (offset <= j)%nat /\ occurs needle s j = true /\ forall k, (offset <= k < j)%nat -> occurs needle s k = false.
Proof. exact pos_is_the_first_occurrence. Qed.
Print Assumptions c18_pos_is_the_first_occurrence.

Theorem c18_pos_absent_means_no_occurrence :
  forall needle s offset, (offset <= length s)%nat -> find_from needle s offset = None ->
    forall k, (offset <= k)%nat -> occurs needle s k = false.
Proof. exact pos_absent_means_no_occurrence. Qed.
Print Assumptions c18_pos_absent_means_no_occurrence.

Theorem c18_rpos_is_the_last_occurrence :
  forall needle s offset j, needle <> [] -> rfind_from needle s offset = Some j ->
    (offset <= j)%nat /\ occurs needle s j = true /\ forall k, (j < k)%nat -> occurs needle s k = false.
Proof. exact rpos_is_the_last_occurrence. Qed.
Print Assumptions c18_rpos_is_the_last_occurrence.

(* #explode: the pieces joined with the delimiter are the string; #replace is splitting at the old text and joining with
   the new one (so replacing a text by itself changes nothing) *)
Theorem c18_explode_pieces_join_back :
  forall s delim, delim <> [] -> ParserFns.join delim (split_fn s delim) = s.
Proof. exact explode_pieces_join_back. Qed.
Print Assumptions c18_explode_pieces_join_back.

Theorem c18_replace_is_split_then_join :
  forall s old new, old <> [] -> replace_fn s old new = ParserFns.join new (split_fn s old).
Proof. exact replace_is_split_then_join. Qed.
Print Assumptions c18_replace_is_split_then_join.

From Coq Require Import QArith.
Close Scope Q_scope.
From WTP Require Import Proofs.NumEqProofs.
(* the comparison of #ifeq and #switch: same text, or both numbers with the same value (01 = 1.0 = 1e0 = 10e-1) *)
Theorem c18_ifeq_comparison_is_same_text_or_same_value :
  forall a b, mw_equal a b = true <->
    a = b \/ exists x y, parse_number a = Some x /\ parse_number b = Some y /\ (qval x == qval y)%Q.
Proof. exact mw_equal_is_same_text_or_same_value. Qed.
Print Assumptions c18_ifeq_comparison_is_same_text_or_same_value.

Example c18_ifeq_comparison_example :      (* "01" ~ "1.0" ~ "10e-1", "1" !~ "1a", "-0" ~ "0", "a" ~ "a", "a" !~ "A" *)
  mw_equal [48; 49]%N [49; 46; 48]%N = true /\ mw_equal [49; 46; 48]%N [49; 48; 101; 45; 49]%N = true /\
  mw_equal [49]%N [49; 97]%N = false /\ mw_equal [45; 48]%N [48]%N = true /\ mw_equal [97]%N [97]%N = true /\
  mw_equal [97]%N [65]%N = false /\
  (exists x, parse_number [49; 48; 101; 45; 49]%N = Some x /\ (qval x == 1)%Q).
Proof. repeat split; try (vm_compute; reflexivity). eexists. split; [vm_compute; reflexivity | reflexivity]. Qed.

Example c18_string_functions_example :
  find_from [97%N] [98%N; 97%N; 99%N; 97%N] 0 = Some 1%nat /\ rfind_from [97%N] [98%N; 97%N; 99%N; 97%N] 0 = Some 3%nat /\
  split_fn [98%N; 97%N; 99%N; 97%N] [97%N] = [[98%N]; [99%N]; []] /\ replace_fn [98%N; 97%N; 99%N; 97%N] [97%N] [120%N; 121%N] = [98%N; 120%N; 121%N; 99%N; 120%N; 121%N].
Proof. repeat split; reflexivity. Qed.

Theorem c18_plural_selects_by_one :
  forall r one many, plural_fn r one many = if str_eqb r [49%N] then one else many.
Proof. exact plural_selects. Qed.
Print Assumptions c18_plural_selects_by_one.


(* formatnum / formatnum|R round trip, for every numeral (any number of integer
   digits, optional fraction of any length) and every locale whose decimal
   point is one non-digit character and whose separator is empty or one other
   non-digit character (loc_ok) ... *)
Theorem c18_formatnum_roundtrip :
  forall loc ip fp, loc_ok loc = true -> digits ip -> fp_digits fp -> numeral ip fp <> [] ->
    formatnum_reverse loc (formatnum loc (numeral ip fp)) = numeral ip fp.
Proof. exact formatnum_roundtrip. Qed.
Print Assumptions c18_formatnum_roundtrip.

(* ... and every locale shipped in the current source tree is such a locale *)
Theorem c18_all_shipped_locales_ok : forallb loc_ok locales = true.
Proof. vm_compute. reflexivity. Qed.
Print Assumptions c18_all_shipped_locales_ok.

Theorem c18_formatnum_roundtrip_shipped :
  forall loc ip fp, In loc locales -> digits ip -> fp_digits fp -> numeral ip fp <> [] ->
    formatnum_reverse loc (formatnum loc (numeral ip fp)) = numeral ip fp.
Proof. intros loc ip fp Hin. apply formatnum_roundtrip.
  exact (proj1 (forallb_forall loc_ok locales) c18_all_shipped_locales_ok loc Hin). Qed.
Print Assumptions c18_formatnum_roundtrip_shipped.

(* non-vacuity: 1234567.89 in a comma/point locale and in a point/comma locale *)
Example c18_formatnum_example :
  formatnum (mkloc [46] [44] [3%nat; 0%nat]) [49;50;51;52;53;54;55;46;56;57]%N = [49;44;50;51;52;44;53;54;55;46;56;57]%N /\
  formatnum (mkloc [44] [46] [3%nat; 0%nat]) [49;50;51;52;53;54;55;46;56;57]%N = [49;46;50;51;52;46;53;54;55;44;56;57]%N.
Proof. vm_compute. split; reflexivity. Qed.


(* The recursive-descent parser of #expr, as a ladder machine over the ladder regenerated from the
   current source (Model/ExprParse.v: generic_binary loop per binary level, parse_unary_fn per prefix level,
   hard-coded terminal), parses the minimally parenthesised printing of EVERY expression tree back to that
   tree: precedence follows the ladder order, every binary level associates to the left, prefix operators
   take an operand of their own level.  Holds for any ladder in which each operator sits in exactly one
   level of its kind ... *)
Definition conv (l : list (level_kind * list string)) : list level :=
  map (fun x => (match fst x with BinaryLeft => LBin | PrefixFns => LPre end, snd x)) l.

Theorem c18_expr_parser_inverts_printer_any_ladder :
  forall L, ladder_okb L = true -> forall e, wfb L e = true ->
    exists f0, forall f, (f0 <= f)%nat -> ExprParse.parse L f L (pr L e) = Some (e, []).
Proof. exact parse_print. Qed.
Print Assumptions c18_expr_parser_inverts_printer_any_ladder.

(* ... which the ladder of the current source is *)
Theorem c18_expr_ladder_unambiguous : ladder_okb (conv ladder) = true.
Proof. vm_compute. reflexivity. Qed.
Print Assumptions c18_expr_ladder_unambiguous.

Theorem c18_expr_parser_inverts_printer :
  forall e, wfb (conv ladder) e = true ->
    exists f0, forall f, (f0 <= f)%nat -> ExprParse.parse (conv ladder) f (conv ladder) (pr (conv ladder) e) = Some (e, []).
Proof. exact (parse_print (conv ladder) c18_expr_ladder_unambiguous). Qed.
Print Assumptions c18_expr_parser_inverts_printer.

(* non-vacuity: 1 - 2 - 3 is printed without parentheses and read back as (1 - 2) - 3;
   1 - (2 - 3) keeps its parentheses; "not 2 ^ 3" is (not 2) ^ 3 *)
Example c18_expr_example :
  let L := conv ladder in
  let e1 := GBin "-" (GBin "-" (GNum 1) (GNum 2)) (GNum 3) in
  let e2 := GBin "-" (GNum 1) (GBin "-" (GNum 2) (GNum 3)) in
  let e3 := GBin "^" (GUn "not" (GNum 2)) (GNum 3) in
  wfb L e1 = true /\ pr L e1 = [TNum 1; TOp "-"; TNum 2; TOp "-"; TNum 3] /\
  pr L e2 = [TNum 1; TOp "-"; TLp; TNum 2; TOp "-"; TNum 3; TRp] /\
  pr L e3 = [TOp "not"; TNum 2; TOp "^"; TNum 3] /\
  ExprParse.parse L 50 L (pr L e1) = Some (e1, []) /\ ExprParse.parse L 50 L (pr L e3) = Some (e3, []).
Proof. vm_compute. repeat split. Qed.

(* BEGIN PINS (tools/repin.py) *)
From WTP Require Import Gen.GenPins.
Module Pins.
Import String.
(* The models of this property were transcribed from: parserfns.py:expr_fn, parserfns.py:padleft_fn, parserfns.py:padright_fn, parserfns.py:sub_fn, parserfns.py:pos_fn, parserfns.py:rpos_fn, parserfns.py:len_fn, parserfns.py:replace_fn, parserfns.py:explode_fn, parserfns.py:plural_fn, parserfns.py:formatnum_fn, parserfns.py:_formatnum_reverse.
   Gen/GenPins.v holds the digests of these functions in the current source (translate/pins.py: syntax tree without
   docstrings, comments and layout).  A different digest means that the model is no longer known to describe the
   code; the check then reports the broken tie and looks for a failing input. *)
Theorem c18_models_describe_the_current_source :
  (pin_expr_fn, pin_padleft_fn, pin_padright_fn, pin_sub_fn, pin_pos_fn, pin_rpos_fn, pin_len_fn, pin_replace_fn, pin_explode_fn, pin_plural_fn, pin_formatnum_fn, pin_formatnum_reverse) = ("7b95c503df39ed86", "af76a6cfa85233db", "4c0c09afadc2ab5d", "edf0b97f7b767f47", "20a163e2457acb95", "d7f6cf63602e2056", "b97c8ba4c89b459e", "e8344fb57c5156d0", "b993426ab29e33ac", "0a3d0c777f88d6ae", "5a6420f13329d007", "72f43b2c47d556e4")%string.
Proof. reflexivity. Qed.
Print Assumptions c18_models_describe_the_current_source.
End Pins.
(* END PINS *)
