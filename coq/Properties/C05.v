(** C05 — expand() terminates and reports failures in-band
    (model: Model/Expand.v; proofs: Proofs/LoopProofs.v).
    PARTIAL: proved for the model — the depth limit and the loop detector turn
    runaway recursion into in-band error elements, and the detector fires on
    exactly the repeated-suffix stacks (so every cycle whose path repeats is
    cut within two periods).  Not proved: a bound on the total work (it is
    exponential in the worst case: known finding), and totality of the ~140
    parser functions, which is decided by running every one of them on
    generated argument vectors on each run -- except for the one recursive
    parser among them, #expr: its ladder machine (Model/ExprParse.v, over the
    ladder regenerated from the source) is proved total, with a nesting depth
    of calls linear in the number of tokens. *)
From Coq Require Import List NArith Bool Arith String Lia.
From WTP Require Import Base.Str Model.Expand Proofs.LoopProofs.
From WTP Require Model.ExprParse Model.ExprTotal Proofs.ExprTotalProofs Gen.GenLadder.
Import ListNotations.
Local Open Scope list_scope.

(* The recursive-descent parser of #expr as a ladder machine with explicit fuel = nesting depth of recursive calls
   (Model/ExprTotal.v, which erases to the machine of Model/ExprParse.v that is compared with expr_fn on every run).
   For EVERY token list and any ladder: with fuel n*(L+3)+L+2 (n tokens, L ladder levels) it ends in a tree or in a
   syntax error, never out of fuel; more fuel never changes the answer.  So the parser terminates on every input,
   and the depth of its recursion grows linearly with the input (which is why 150 nested parentheses used to exhaust
   Python's stack: repaired by fix 9fad23b, which reports that in-band). *)
Module ExprTotality.
Import ExprParse ExprTotal ExprTotalProofs GenLadder.
Definition conv (l : list (level_kind * list string)) : list level :=
  map (fun x => (match fst x with BinaryLeft => LBin | PrefixFns => LPre end, snd x)) l.

Theorem c05_expr_parser_never_runs_out_of_fuel :
  forall full ts f, (bound full (List.length ts) (List.length full) <= f)%nat -> parse3 full f full ts <> OutOfFuel.
Proof. exact never_out_of_fuel. Qed.
Print Assumptions c05_expr_parser_never_runs_out_of_fuel.

Theorem c05_expr_parser_answer_is_stable :
  forall full ts f, (bound full (List.length ts) (List.length full) <= f)%nat ->
    parse3 full f full ts = parse3 full (bound full (List.length ts) (List.length full)) full ts.
Proof. exact answer_is_stable. Qed.
Print Assumptions c05_expr_parser_answer_is_stable.

Theorem c05_expr_total_machine_is_the_compared_machine :
  forall full f lv ts, erase (parse3 full f lv ts) = ExprParse.parse full f lv ts.
Proof. intros full f. exact (proj1 (erase_both full f)). Qed.
Print Assumptions c05_expr_total_machine_is_the_compared_machine.

(* for the ladder of the current source: 9 levels, so 12 n + 11 nested calls at most for n tokens *)
Theorem c05_expr_parser_total_for_the_current_ladder :
  forall ts f, (List.length ts * 12 + 11 <= f)%nat -> parse3 (conv ladder) f (conv ladder) ts <> OutOfFuel.
Proof. intros ts f Hf. apply never_out_of_fuel.
  assert (E : List.length (conv ladder) = 9%nat) by reflexivity. unfold bound. rewrite E. lia. Qed.
Print Assumptions c05_expr_parser_total_for_the_current_ladder.

Example c05_expr_total_example :
  parse3 (conv ladder) 200 (conv ladder) [TLp; TNum 1; TOp "+"; TNum 2; TRp; TOp "*"; TOp "-"; TNum 3]
    = Ok (GBin "*" (GBin "+" (GNum 1) (GNum 2)) (GUn "-" (GNum 3))) []
  /\ parse3 (conv ladder) 200 (conv ladder) [TLp; TNum 1; TOp "+"] = Syntax.
Proof. split; vm_compute; reflexivity. Qed.
End ExprTotality.

(* at a path length of 100 a call is not expanded: the error element is returned *)
Theorem c05_depth_limit_inband :
  forall pfnames lib opts f stk ea args,
    (100 <= length stk)%nat -> expand_T pfnames lib opts (S f) stk ea args = Some [ErrDeep].
Proof. exact expand_T_depth_limit. Qed.
Print Assumptions c05_depth_limit_inband.

(* the loop detector only fires on a stack that ends in at least two copies of
   a pattern that does not start with an argument-value frame ... *)
Theorem c05_loop_detector_sound :
  forall stack, detect_loop stack = true ->
    exists pre w k, stack = pre ++ repeat_frames w k /\ (2 <= k)%nat /\
                    match w with f :: _ => is_argval f = false | [] => False end.
Proof. exact detect_loop_sound. Qed.
Print Assumptions c05_loop_detector_sound.

(* ... and it always fires once such a pattern has occurred twice in a row *)
Theorem c05_loop_detector_complete :
  forall pre w, match w with f :: _ => is_argval f = false | [] => False end ->
    detect_loop (pre ++ w ++ w) = true.
Proof. exact detect_loop_complete. Qed.
Print Assumptions c05_loop_detector_complete.

(* BEGIN PINS (tools/repin.py) *)
From WTP Require Import Gen.GenPins.
Module Pins.
Import String.
(* The models of this property were transcribed from: core.py:detect_expand_template_loop.
   Gen/GenPins.v holds the digests of these functions in the current source (translate/pins.py: syntax tree without
   docstrings, comments and layout).  A different digest means that the model is no longer known to describe the
   code; the check then reports the broken tie and looks for a failing input. *)
Theorem c05_models_describe_the_current_source :
  pin_detect_loop = "1fbfb59ad5199fd7"%string.
Proof. reflexivity. Qed.
Print Assumptions c05_models_describe_the_current_source.
End Pins.
(* END PINS *)
