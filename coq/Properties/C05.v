(** C05 — expand() terminates and reports failures in-band
    (model: Model/Expand.v; proofs: Proofs/LoopProofs.v).
    PARTIAL: proved for the model — the depth limit and the loop detector turn
    runaway recursion into in-band error elements, and the detector fires on
    exactly the repeated-suffix stacks (so every cycle whose path repeats is
    cut within two periods).  Not proved: a bound on the total work (it is
    exponential in the worst case: known finding), and totality of the ~140
    parser functions, which is decided by running every one of them on
    generated argument vectors on each run. *)
From Coq Require Import List NArith Bool Arith.
From WTP Require Import Base.Str Model.Expand Proofs.LoopProofs.
Import ListNotations.

(* at a path length of 100 a call is not expanded: the error element is returned *)
Theorem c05_depth_limit_inband :
  forall pfnames lib opts f stk ea args,
    (100 <= length stk)%nat -> expand_T pfnames lib opts (S f) stk ea args = Some [ErrDeep].
Proof. exact expand_T_depth_limit. Qed.
Print Assumptions c05_depth_limit_inband.

(* the loop detector only fires on a stack that ends in at least two copies of
   a pattern that does not start with an argument-value frame ... *)
Theorem c05_loop_detector_sound :
  forall stack, detect_loop stack = true ->
    exists pre w k, stack = pre ++ repeat_frames w k /\ (2 <= k)%nat /\
                    match w with f :: _ => is_argval f = false | [] => False end.
Proof. exact detect_loop_sound. Qed.
Print Assumptions c05_loop_detector_sound.

(* ... and it always fires once such a pattern has occurred twice in a row *)
Theorem c05_loop_detector_complete :
  forall pre w, match w with f :: _ => is_argval f = false | [] => False end ->
    detect_loop (pre ++ w ++ w) = true.
Proof. exact detect_loop_complete. Qed.
Print Assumptions c05_loop_detector_complete.

(* BEGIN PINS (tools/repin.py) *)
From WTP Require Import Gen.GenPins.
Module Pins.
Import String.
(* The models of this property were transcribed from: core.py:detect_expand_template_loop.
   Gen/GenPins.v holds the digests of these functions in the current source (translate/pins.py: syntax tree without
   docstrings, comments and layout).  A different digest means that the model is no longer known to describe the
   code; the check then reports the broken tie and looks for a failing input. *)
Theorem c05_models_describe_the_current_source :
  pin_detect_loop = "1fbfb59ad5199fd7"%string.
Proof. reflexivity. Qed.
Print Assumptions c05_models_describe_the_current_source.
End Pins.
(* END PINS *)
