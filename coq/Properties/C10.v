(** C10 — the page store returns the latest version of every page under every
    spelling (model: Model/Store.v; proofs: Proofs/StoreProofs.v). *)
From Coq Require Import List ZArith Bool.
From WTP Require Import Base.Str Model.Store Proofs.StoreProofs.
Import ListNotations.
Open Scope N_scope.

(* Refinement to the history: after ANY sequence of add_page calls, a lookup
   returns the most recent add whose stored key equals the normalised title,
   else (first letter upper-cased) the most recent add of that key, else
   nothing; [no_redirect] only filters.  Absent pages stay absent, existence
   (= get_page is Some) agrees by definition of page_exists. *)
Theorem c10_lookup_is_latest_add :
  forall tbl template_ns to_body hist title ns nr,
    get_page tbl (run_adds tbl template_ns to_body hist) title (Some ns) nr
    = spec_get tbl template_ns to_body hist title ns nr.
Proof. exact get_page_latest. Qed.
Print Assumptions c10_lookup_is_latest_add.

(* The page just added (or overwritten) is what the next lookup returns. *)
Theorem c10_read_your_write :
  forall tbl template_ns to_body hist a title,
    (exists up, lookup_titles tbl title (Some (a_ns a))
                = Some (r_title (stored tbl template_ns to_body a), up)) ->
    get_page tbl (run_adds tbl template_ns to_body (hist ++ [a])) title (Some (a_ns a)) false
    = Some (stored tbl template_ns to_body a).
Proof. exact get_after_add. Qed.
Print Assumptions c10_read_your_write.

(* Adding a page under a different key changes no other lookup. *)
Theorem c10_other_pages_untouched :
  forall tbl template_ns to_body hist a title ns nr t2 up,
    lookup_titles tbl title (Some ns) = Some (t2, up) ->
    key_eqb t2 ns (stored tbl template_ns to_body a) = false ->
    key_eqb up ns (stored tbl template_ns to_body a) = false ->
    get_page tbl (run_adds tbl template_ns to_body (hist ++ [a])) title (Some ns) nr
    = get_page tbl (run_adds tbl template_ns to_body hist) title (Some ns) nr.
Proof. exact get_frame. Qed.
Print Assumptions c10_other_pages_untouched.

(* Spelling insensitivity: prefix given, omitted, aliased / written in another
   case, and underscores for spaces all denote the same candidate titles
   (canonical title, then first letter upper-cased), hence the same page. *)
Theorem c10_spellings :
  forall tbl ns info b,
    Z.eqb ns 0 = false -> ns_lookup tbl ns = Some info ->
    ~ In 95 b -> ~ In 95 (ns_name info) ->
    startswith main_prefix (Pfx info ++ b) = false ->
    let canon := Some (Pfx info ++ b, Pfx info ++ upper_first b) in
    lookup_titles tbl (Pfx info ++ b) (Some ns) = canon
    /\ (b <> [] -> startswith main_prefix b = false -> startswith (Pfx info) b = false ->
        existsb (fun p => startswith p (lower b)) (ns_prefixes info) = false ->
        lookup_titles tbl b (Some ns) = canon)
    /\ (forall a, ~ In colon a -> ~ In 95 a -> In (lower (a ++ [colon])) (ns_prefixes info) ->
        startswith main_prefix (a ++ colon :: b) = false ->
        startswith (Pfx info) (a ++ colon :: b) = false ->
        lookup_titles tbl (a ++ colon :: b) (Some ns) = canon)
    /\ (forall t nso, ~ In 95 t -> lookup_titles tbl (replace_c 32 95 t) nso = lookup_titles tbl t nso).
Proof.
  intros tbl ns info b H0 Hk Hb Hn Hm. cbv zeta. repeat split.
  - exact (lookup_prefixed tbl ns info H0 Hk b Hb Hn Hm).
  - exact (lookup_plain tbl ns info H0 Hk b Hb).
  - exact (lookup_alias tbl ns info H0 Hk b Hb).
  - intros t nso. exact (lookup_underscore tbl t nso).
Qed.
Print Assumptions c10_spellings.

(* BEGIN PINS (tools/repin.py) *)
From WTP Require Import Gen.GenPins.
Module Pins.
Import String.
(* The models of this property were transcribed from: core.py:Wtp.add_page, core.py:Wtp.get_page, core.py:Wtp.get_page_resolve_redirect.
   Gen/GenPins.v holds the digests of these functions in the current source (translate/pins.py: syntax tree without
   docstrings, comments and layout).  A different digest means that the model is no longer known to describe the
   code; the check then reports the broken tie and looks for a failing input. *)
Theorem c10_models_describe_the_current_source :
  (pin_add_page, pin_get_page, pin_get_page_resolve_redirect) = ("fd312b2ac3888147", "1eb57c52c10c59be", "4e64616f9480d3fd")%string.
Proof. reflexivity. Qed.
Print Assumptions c10_models_describe_the_current_source.
End Pins.
(* END PINS *)
