(** C15 — nowiki content and comments are inert and recoverable
    (models: Model/Expand.v (N cookies, finalize), Model/Nowiki.v (decoding);
    Gen/GenData.v carries the _nowiki_map of the current source). *)
From Coq Require Import List NArith Bool.
From WTP Require Import Base.Str Model.Expand Model.Nowiki Gen.GenData Proofs.NowikiProofs Proofs.ExpandProofs.
From Coq Require String.
From WTP Require Import Model.Preprocess Proofs.PreprocessProofs Gen.GenPre.
From WTP Require Proofs.NowikiEndProofs.
Import ListNotations.
Open Scope N_scope.

(* decoding the entities gives the content back, for every content without '&' *)
Theorem c15_quote_roundtrip :
  forall c, ~ In 38 c -> unescape (length c) nowiki_map (nowiki_quote nowiki_map c) = c.
Proof. exact unescape_quote. Qed.
Print Assumptions c15_quote_roundtrip.

(* the quoted text contains none of the markup characters listed in markup_chars (equals, angle brackets, asterisk, colon, exclamation mark, bar, square and curly brackets, both quotes, underscore) *)
Theorem c15_quote_inert :
  forall c y, In y (nowiki_quote nowiki_map c) -> In y markup_chars -> False.
Proof. exact quote_inert. Qed.
Print Assumptions c15_quote_inert.

(* the expander passes an N cookie through both passes without looking at its
   content, in any library, option set and expansion path; finalisation prints
   exactly the quoted content *)
Theorem c15_expander_never_inspects_nowiki :
  forall pfnames lib opts f stk ea am c rest,
    expand_recurse pfnames lib opts (S f) stk ea (Nw c :: rest)
      = option_map (cons (Nw c)) (expand_recurse pfnames lib opts f stk ea rest) /\
    expand_args pfnames lib opts (S f) stk am (Nw c :: rest)
      = option_map (cons (Nw c)) (expand_args pfnames lib opts f stk am rest).
Proof. intros. split; [apply expand_recurse_nw | apply expand_args_nw]. Qed.
Print Assumptions c15_expander_never_inspects_nowiki.

Theorem c15_finalize_prints_quoted :
  forall fuel nwmap c rest,
    finalize (S fuel) nwmap (Nw c :: rest) =
    (match c with [] => s_nowiki_empty | _ => nowiki_quote nwmap c end) ++ finalize (S fuel) nwmap rest.
Proof. exact finalize_nw. Qed.
Print Assumptions c15_finalize_prints_quoted.


(* The preprocessing pass (Model/Preprocess.v = Wtp.preprocess_text), on EVERY arrangement of plain text, closed
   comments, nowiki elements and <nowiki/> tags (texts free of angle brackets, comment bodies free of '>', no two
   plain pieces in a row): nowiki content is set aside exactly as written - braces, brackets, bars, quotes,
   comment openers and all - and is never looked at again; every closed comment is deleted together with one line
   break directly before it; nothing else changes. *)
Theorem c15_preprocess_sets_nowiki_aside_and_deletes_comments :
  forall segs, Forall PreprocessProofs.seg_ok segs -> no_adjacent_plain segs ->
    preprocess (render_ps segs) = PreprocessProofs.spec segs.
Proof. exact preprocess_spec. Qed.
Print Assumptions c15_preprocess_sets_nowiki_aside_and_deletes_comments.


(* End to end, for every page made of plain text (no brackets, braces or angle brackets), closed comments, nowiki
   elements and <nowiki/> tags, in any library and under any options: preprocessing, expansion and finalisation
   together print every nowiki content entity-quoted (with the map of the current source), drop every closed comment
   with the line break before it, and leave the rest as written. *)
Theorem c15_text_comments_and_nowiki_end_to_end :
  forall pfnames lib opts pre_expand segs,
    Forall PreprocessProofs.seg_ok segs -> no_adjacent_plain segs ->
    forall f, (length (PreprocessProofs.spec segs) < f)%nat ->
      expand_page pfnames nowiki_map lib opts pre_expand f (NowikiEndProofs.encode_plain (preprocess (render_ps segs)))
      = Some (flat_map (NowikiEndProofs.out_of nowiki_map) (PreprocessProofs.spec segs)).
Proof. intros. apply NowikiEndProofs.page_of_text_comments_and_nowiki; assumption. Qed.
Print Assumptions c15_text_comments_and_nowiki_end_to_end.

(* "ab<!-- c --><nowiki>[[x]]</nowiki>" comes out as "ab&lsqb;&lsqb;x&rsqb;&rsqb;" *)
Example c15_end_to_end_example :
  expand_page [] nowiki_map [] (mkopts true (mksel None None) false [] []) false 50
    (NowikiEndProofs.encode_plain (preprocess (render_ps [SPlain [97; 98]; SComment [32; 99; 32]; SNowiki [91; 91; 120; 93; 93]])))
  = Some ([97; 98] ++ [38;108;115;113;98;59] ++ [38;108;115;113;98;59] ++ [120] ++ [38;114;115;113;98;59] ++ [38;114;115;113;98;59]).
Proof. vm_compute. reflexivity. Qed.

(* The pass Model/Preprocess.v models is the pass the current source has (Gen/GenPre.v is regenerated from
   Wtp.preprocess_text on every run; the translator also pins the replacement function). *)
Module Pattern.
Import String.
Theorem c15_preprocess_pattern_is_the_modelled_one :
  preprocess_pattern = "(?si)<nowiki\s*>(.*?)</nowiki\s*>|<nowiki\s*/>|\n?<!--.*?-->"%string.
Proof. reflexivity. Qed.
Print Assumptions c15_preprocess_pattern_is_the_modelled_one.
End Pattern.

(* BEGIN PINS (tools/repin.py) *)
From WTP Require Import Gen.GenPins.
Module Pins.
Import String.
(* The models of this property were transcribed from: common.py:nowiki_quote.
   Gen/GenPins.v holds the digests of these functions in the current source (translate/pins.py: syntax tree without
   docstrings, comments and layout).  A different digest means that the model is no longer known to describe the
   code; the check then reports the broken tie and looks for a failing input. *)
Theorem c15_models_describe_the_current_source :
  pin_nowiki_quote = "8bee0929ad5382d5"%string.
Proof. reflexivity. Qed.
Print Assumptions c15_models_describe_the_current_source.
End Pins.
(* END PINS *)
