(** C09 — processing a page does not depend on what the context processed
    before (model: Model/Footprint.v; Gen/GenFields.v is regenerated from the
    package sources on every run by translate/fields.py). *)
From Coq Require Import List Bool String.
Import ListNotations.
From WTP Require Import Model.Footprint Gen.GenFields.
Open Scope string_scope.

(* Generic: for ANY processing function that (i) only changes the fields in
   [written] and (ii) does not depend on the fields that are written but not
   reset by start_page, the observation for a page after any history of pages
   equals the observation on the context it started from. *)
Theorem c09_history_independent :
  forall (V O P : Type) reset init proc written,
    (forall p c f, mem f written = false -> fst (proc p c) f = c f) ->
    (forall p c1 c2, agree V c1 c2 (fun f => negb (leaky reset written f)) ->
        snd (proc p c1) = snd (proc p c2) /\
        agree V (fst (proc p c1)) (fst (proc p c2)) (fun f => negb (leaky reset written f))) ->
    forall c0 h p,
      snd (run_page V O P reset init proc (run_history V O P reset init proc c0 h) p)
      = snd (run_page V O P reset init proc c0 p).
Proof. exact history_independent. Qed.
Print Assumptions c09_history_independent.

(* The fields that, in the CURRENT source, are written while a page is
   processed but are not reset by start_page are exactly accounted for:
   the parse prologue re-initialises the tokenizer/parser flags before they are
   read, and the remaining ones are justified below.  A new mutable field that
   carries state from page to page makes this theorem fail. *)
Definition justified : list string := [
  "begline_disable_counter";  (* incremented/decremented by a context manager: balanced on every path *)
  "begline_enabled";          (* idem *)
  "lua_invoke";               (* handles of the Lua runtime, reassigned on every top-level invocation *)
  "lua_reset_env";
  "wikidata_session"          (* network session object, not consulted offline *)
].

Theorem c09_every_written_field_is_accounted_for :
  covered written_during_processing start_page_resets parse_prologue_resets justified = true.
Proof. vm_compute. reflexivity. Qed.
Print Assumptions c09_every_written_field_is_accounted_for.

(* Memoised functions are state too.  In the CURRENT source the only one is get_page, whose result depends on its arguments
   and on the pages table only, and every function that writes that table clears it (add_page, analyze_templates) or is a
   helper called only from one that does (set_template_pre_expand).  A new memoised function - e.g. one keyed by a value
   that is only unique within a page - or a new writer of the pages table that forgets to clear makes this theorem fail. *)
Definition justified_memo : list string := ["get_page"].

Theorem c09_every_memoised_function_is_accounted_for :
  memo_covered memoised_functions store_writers cache_clears writer_calls justified_memo = true.
Proof. vm_compute. reflexivity. Qed.
Print Assumptions c09_every_memoised_function_is_accounted_for.

Example c09_memo_rule_rejects :   (* a memo that nobody clears, a writer that does not clear, an unlisted memo *)
  memo_covered ["get_page"] ["add_page"] [] [] ["get_page"] = false /\
  memo_covered ["get_page"] ["add_page"; "w2"] ["add_page>get_page"] ["x>add_page"] ["get_page"] = false /\
  memo_covered ["get_page"; "_nowiki_text"] ["add_page"] ["add_page>get_page"; "add_page>_nowiki_text"] [] ["get_page"] = false /\
  memo_covered ["get_page"] ["add_page"; "h"] ["add_page>get_page"] ["add_page>h"] ["get_page"] = true.
Proof. vm_compute. repeat split. Qed.
