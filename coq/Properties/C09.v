(** C09 — processing a page does not depend on what the context processed
    before (model: Model/Footprint.v; Gen/GenFields.v is regenerated from the
    package sources on every run by translate/fields.py). *)
From Coq Require Import List Bool String.
Import ListNotations.
From WTP Require Import Model.Footprint Gen.GenFields.
Open Scope string_scope.

(* Generic: for ANY processing function that (i) only changes the fields in
   [written] and (ii) does not depend on the fields that are written but not
   reset by start_page, the observation for a page after any history of pages
   equals the observation on the context it started from. *)
Theorem c09_history_independent :
  forall (V O P : Type) reset init proc written,
    (forall p c f, mem f written = false -> fst (proc p c) f = c f) ->
    (forall p c1 c2, agree V c1 c2 (fun f => negb (leaky reset written f)) ->
        snd (proc p c1) = snd (proc p c2) /\
        agree V (fst (proc p c1)) (fst (proc p c2)) (fun f => negb (leaky reset written f))) ->
    forall c0 h p,
      snd (run_page V O P reset init proc (run_history V O P reset init proc c0 h) p)
      = snd (run_page V O P reset init proc c0 p).
Proof. exact history_independent. Qed.
Print Assumptions c09_history_independent.

(* The fields that, in the CURRENT source, are written while a page is
   processed but are not reset by start_page are exactly accounted for:
   the parse prologue re-initialises the tokenizer/parser flags before they are
   read, and the remaining ones are justified below.  A new mutable field that
   carries state from page to page makes this theorem fail. *)
Definition justified : list string := [
  "begline_disable_counter";  (* incremented/decremented by a context manager: balanced on every path *)
  "begline_enabled";          (* idem *)
  "lua_invoke";               (* handles of the Lua runtime, reassigned on every top-level invocation *)
  "lua_reset_env";
  "wikidata_session"          (* network session object, not consulted offline *)
].

Theorem c09_every_written_field_is_accounted_for :
  covered written_during_processing start_page_resets parse_prologue_resets justified = true.
Proof. vm_compute. reflexivity. Qed.
Print Assumptions c09_every_written_field_is_accounted_for.
