(** C17 — template analysis marks exactly the closure of structure-affecting
    templates (model: Model/Analyze.v; proofs: Proofs/AnalyzeProofs.v). *)
From Coq Require Import List Arith.
Import ListNotations.
From WTP Require Import Model.Analyze Proofs.AnalyzeProofs.

(* On every inclusion graph over n templates (cycles, self-inclusion allowed)
   and every flag set, the worklist terminates within its fuel with an empty
   stack, and the marked set is exactly the least set containing the flagged
   templates and every includer of a marked one. *)
Theorem c17_closure_exact :
  forall n edges flagged,
    (forall u t, In (u, t) edges -> t < n) ->
    (forall f, In f flagged -> f < n) -> NoDup flagged ->
    snd (propagate n edges flagged) = [] /\
    forall x, In x (fst (propagate n edges flagged)) <-> Clo edges flagged x.
Proof. exact propagate_exact. Qed.
Print Assumptions c17_closure_exact.

(* After the two redirect updates the result is the closure plus the redirects
   from and to a member of the closure (one hop), and nothing else. *)
Theorem c17_redirects_exact :
  forall n edges flagged,
    (forall u t, In (u, t) edges -> t < n) ->
    (forall f, In f flagged -> f < n) -> NoDup flagged ->
    forall reds, (forall r d d', In (r, d) reds -> In (r, d') reds -> d = d') ->
    forall x, In x (analyze n edges flagged reds) <->
      Clo edges flagged x
      \/ (exists d, In (x, d) reds /\ Clo edges flagged d)
      \/ (exists r, In (r, x) reds /\ Clo edges flagged r).
Proof. exact analyze_exact. Qed.
Print Assumptions c17_redirects_exact.

(* Stores that already hold marks (templates stored with need_pre_expand set, or marked by an earlier analysis): the
   worklist is seeded with the classifier's flags AND the marks found, so the theorems above apply with
   [flagged] := flags ++ already marked; in particular a second analysis after more templates were stored marks every
   includer of a previously marked template.  Instance: A flagged, B includes A, both marked by a first run; C, stored
   later, includes B and is marked by the second run. *)
Theorem c17_reanalysis_is_analysis_from_scratch :
  forall edges edges' F F' marks,
    (forall e, In e edges -> In e edges') ->                 (* templates were added: the inclusion graph only grows *)
    (forall m, In m marks -> Clo edges F m) ->               (* the marks in the store come from the first analysis ... *)
    (forall f, In f F -> In f marks) ->                      (* ... and include what it was seeded with *)
    forall x, Clo edges' (F' ++ marks) x <-> Clo edges' (F' ++ F) x.
Proof. exact reanalysis_exact. Qed.
Print Assumptions c17_reanalysis_is_analysis_from_scratch.

(* analysing an analysed store again (same graph, marks = the closure) changes nothing *)
Theorem c17_analysis_is_idempotent :
  forall edges F marks, (forall m, In m marks <-> Clo edges F m) -> forall x, Clo edges marks x <-> Clo edges F x.
Proof. exact closure_idempotent. Qed.
Print Assumptions c17_analysis_is_idempotent.

Example c17_reanalysis_example :
  let edges := [(0, 1); (1, 2)] in              (* B includes A, C includes B *)
  fst (propagate 3 edges [0; 1]) = [2; 0; 1] /\ forall x, In x (fst (propagate 3 edges [0; 1])) <-> Clo edges [0; 1] x.
Proof. split; [vm_compute; reflexivity|]. apply (proj2 (c17_closure_exact 3 [(0, 1); (1, 2)] [0; 1]
  ltac:(intros u t [H|[H|[]]]; inversion H; auto) ltac:(intros f [<-|[<-|[]]]; auto)
  ltac:(repeat constructor; cbn; intuition congruence))). Qed.

(* BEGIN PINS (tools/repin.py) *)
From WTP Require Import Gen.GenPins.
Module Pins.
Import String.
(* The models of this property were transcribed from: core.py:Wtp.analyze_templates.
   Gen/GenPins.v holds the digests of these functions in the current source (translate/pins.py: syntax tree without
   docstrings, comments and layout).  A different digest means that the model is no longer known to describe the
   code; the check then reports the broken tie and looks for a failing input. *)
Theorem c17_models_describe_the_current_source :
  pin_analyze_templates = "7a3f0ebb0279a088"%string.
Proof. reflexivity. Qed.
Print Assumptions c17_models_describe_the_current_source.
End Pins.
(* END PINS *)
