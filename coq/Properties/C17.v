(** C17 — template analysis marks exactly the closure of structure-affecting
    templates (model: Model/Analyze.v; proofs: Proofs/AnalyzeProofs.v). *)
From Coq Require Import List Arith.
Import ListNotations.
From WTP Require Import Model.Analyze Proofs.AnalyzeProofs.

(* On every inclusion graph over n templates (cycles, self-inclusion allowed)
   and every flag set, the worklist terminates within its fuel with an empty
   stack, and the marked set is exactly the least set containing the flagged
   templates and every includer of a marked one. *)
Theorem c17_closure_exact :
  forall n edges flagged,
    (forall u t, In (u, t) edges -> t < n) ->
    (forall f, In f flagged -> f < n) -> NoDup flagged ->
    snd (propagate n edges flagged) = [] /\
    forall x, In x (fst (propagate n edges flagged)) <-> Clo edges flagged x.
Proof. exact propagate_exact. Qed.
Print Assumptions c17_closure_exact.

(* After the two redirect updates the result is the closure plus the redirects
   from and to a member of the closure (one hop), and nothing else. *)
Theorem c17_redirects_exact :
  forall n edges flagged,
    (forall u t, In (u, t) edges -> t < n) ->
    (forall f, In f flagged -> f < n) -> NoDup flagged ->
    forall reds, (forall r d d', In (r, d) reds -> In (r, d') reds -> d = d') ->
    forall x, In x (analyze n edges flagged reds) <->
      Clo edges flagged x
      \/ (exists d, In (x, d) reds /\ Clo edges flagged d)
      \/ (exists r, In (r, x) reds /\ Clo edges flagged r).
Proof. exact analyze_exact. Qed.
Print Assumptions c17_redirects_exact.
