(** C20 — concurrent worker contexts on one database agree and do not disturb it
    (model: Model/Workers.v; proofs: Proofs/WorkersProofs.v).
    PARTIAL by nature: the theorem covers every schedule of the workers'
    start-up steps at the model's granularity; SQLite's locking, lock
    time-outs and the OS scheduler are runtime behaviour that the per-run
    harness only samples (free-running processes) or explores one preemption
    at a time (gated schedules). *)
From Coq Require Import List Bool Arith.
Import ListNotations.
From WTP Require Import Model.Workers Proofs.WorkersProofs.

(* No backup file: for EVERY schedule and EVERY number of workers, the
   database keeps its content, no worker fails, and each worker that has
   connected reads the stored version; adding the bootstrap page is idempotent. *)
Theorem c20_no_backup_every_schedule :
  forall sched v n bp,
    let (sh', ws') := run_schedule (mksh (Holds v) Missing bp) (repeat start_worker n) sched in
    dbf sh' = Holds v /\ bakf sh' = Missing /\
    Forall (fun w => failed w = false /\ reads_ok v w = true) ws'.
Proof. intros sched v n bp.
  pose proof (no_backup_safe sched v _ _ (start_inv v n bp)) as H.
  destruct (run_schedule (mksh (Holds v) Missing bp) (repeat start_worker n) sched) as [sh' ws'].
  destruct H as (Hd & Hb & Hw). repeat split; try assumption.
  eapply Forall_impl; [|exact Hw]. intros w (A & B & _). split; assumption. Qed.
Print Assumptions c20_no_backup_every_schedule.

(* With a backup file present the start-up is NOT safe (known finding): a schedule on which the restored database is
   unlinked again and a worker fails. *)
Theorem c20_backup_present_refuted :
  exists sched, let '(sh, ws) := run_schedule (mksh (Holds 2) (Holds 1) true) [start_worker; start_worker] sched in
                dbf sh = Missing /\ existsb failed ws = true.
Proof. exists [0; 1; 1; 1; 1; 0; 0]%nat. exact backup_race. Qed.
Print Assumptions c20_backup_present_refuted.

(* BEGIN PINS (tools/repin.py) *)
From WTP Require Import Gen.GenPins.
Module Pins.
Import String.
(* The models of this property were transcribed from: luaexec.py:add_empty_sandbox_lua_module.
   Gen/GenPins.v holds the digests of these functions in the current source (translate/pins.py: syntax tree without
   docstrings, comments and layout).  A different digest means that the model is no longer known to describe the
   code; the check then reports the broken tie and looks for a failing input. *)
Theorem c20_models_describe_the_current_source :
  pin_add_empty_sandbox_lua_module = "9e563a59cccb26c7"%string.
Proof. reflexivity. Qed.
Print Assumptions c20_models_describe_the_current_source.
End Pins.
(* END PINS *)
