(** C07 — every Lua invocation is stopped by its time limit
    (model: Model/Timeout.v; proofs: Proofs/TimeoutProofs.v).
    PARTIAL by nature: time is counted in hook periods; what a period costs in
    wall-clock seconds, os.time()'s granularity, per-coroutine hooks and long
    C functions are runtime behaviour that only the per-run harness exhibits
    (every program shape is compiled to Lua and run under a watchdog). *)
From Coq Require Import List Arith Bool.
Import ListNotations.
From WTP Require Import Model.Timeout Proofs.TimeoutProofs.

(* Every program built from straight-line work, infinite loops, sequencing and
   "while true" loops - i.e. every program that does not use pcall or the
   exposed timeout controls - either finishes before its deadline or is
   aborted with the timeout error within one hook period after the deadline;
   it is never left running. *)
Theorem c07_plain_programs_are_stopped :
  forall p s, plain p = true -> hook s = true ->
    exists fuel r, exec fuel p s = Some r /\ good s r.
Proof. exact plain_stopped. Qed.
Print Assumptions c07_plain_programs_are_stopped.

(* The full statement (ALL programs, pcall and the exposed controls included) is false of the faithful model, as it is
   of the code (known findings): *)
Theorem c07_pcall_loop_refuted :
  forall fuel s, hook s = true -> exec fuel (Forever (Pcall Loop)) s = None.
Proof. exact forever_pcall_never_returns. Qed.
Print Assumptions c07_pcall_loop_refuted.

Theorem c07_clear_hook_refuted : forall s, exec 5 (Seq ClearHook Loop) s = Some Hung.
Proof. exact clear_hook_hangs. Qed.
Print Assumptions c07_clear_hook_refuted.

Theorem c07_pcall_swallows_refuted :
  forall d, exists s', exec 5 (Seq (Pcall Loop) (Finite 0)) (mkst 0 true d) = Some (Ok s').
Proof. exact pcall_swallows. Qed.
Print Assumptions c07_pcall_swallows_refuted.


(* the same holds for a loop around a nested invocation, whose timeout error comes back as text *)
Theorem c07_nested_invocation_loop_refuted :
  forall fuel s, hook s = true -> exec fuel (Forever (Nested Loop)) s = None.
Proof. exact forever_nested_never_returns. Qed.
Print Assumptions c07_nested_invocation_loop_refuted.

(* BEGIN PINS (tools/repin.py) *)
From WTP Require Import Gen.GenPins.
Module Pins.
Import String.
(* The models of this property were transcribed from: lua/_sandbox_phase2.lua:_lua_invoke, lua/_sandbox_phase1.lua:_lua_set_timeout, lua/_sandbox_phase1.lua:_lua_clear_timeout_hook.
   Gen/GenPins.v holds the digests of these functions in the current source (translate/pins.py: syntax tree without
   docstrings, comments and layout).  A different digest means that the model is no longer known to describe the
   code; the check then reports the broken tie and looks for a failing input. *)
Theorem c07_models_describe_the_current_source :
  (pin_lua_invoke, pin_lua_set_timeout, pin_lua_clear_timeout_hook) = ("77bb1b2ebc49d4c6", "6196d1a77f7ece96", "b68c104d1b68045f")%string.
Proof. reflexivity. Qed.
Print Assumptions c07_models_describe_the_current_source.
End Pins.
(* END PINS *)
