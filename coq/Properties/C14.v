(** C14 — all three views of a template call's arguments agree
    (model: Model/ArgViews.v; proofs: Proofs/ArgViewsProofs.v). *)
From Coq Require Import List NArith Bool.
From WTP Require Import Base.Str Model.ArgViews Proofs.ArgViewsProofs.
Import ListNotations.
Open Scope N_scope.

(* For every argument list (any length) of plain-text arguments in which
   - no argument has a line made only of spaces/tabs (the tokenizer drops such
     lines: known finding, excluded here by [tok_text a = a]),
   - positional values do not end in a newline (the quantifier has leading and
     inner newlines only),
   - names are non-blank, free of the characters the two named-argument
     regexes exclude, and without whitespace runs; values are non-blank;
     numeric names are at most 1000,
   the parser's template_parameters, the expander's argument map and the Lua
   frame arguments are the same association list: integer keys for positional
   and positive numeric names, string keys otherwise; named values trimmed,
   positional values verbatim. *)
Theorem c14_views_agree :
  forall args, Forall arg_ok args -> forall idx,
    view_parser args idx = view_expander args (idx + 1) /\
    view_expander args (idx + 1) = view_lua args (idx + 1).
Proof. exact views_agree. Qed.
Print Assumptions c14_views_agree.

(* What the common view is, spelled out: a positional argument is numbered by
   the count of positional arguments before it and kept verbatim ... *)
Theorem c14_positional_verbatim :
  forall a rest num, split_eq a = None ->
    view_expander (a :: rest) num = (KInt num, a) :: view_expander rest (num + 1).
Proof. intros a rest num H. cbn [view_expander]. rewrite (split_named_none _ a H). reflexivity. Qed.
Print Assumptions c14_positional_verbatim.

(* ... and a named one does not consume a number, its key is the trimmed name
   (an integer when it is a positive numeral) and its value is trimmed. *)
Theorem c14_named_trimmed :
  forall a n v rest num, split_eq a = Some (n, v) -> named_ok n v ->
    view_expander (a :: rest) num =
      ((if positive_number (strip_by sp_py n) then KInt (to_num (strip_by sp_py n))
        else KStr (strip_by sp_py n)), strip_by sp_py v) :: view_expander rest num.
Proof. intros a n v rest num Hs (Hn & Hce & _ & Hcol & _). cbn [view_expander].
  rewrite (split_named_ok cls_expander a n v Hs Hn Hce), Hcol. reflexivity. Qed.
Print Assumptions c14_named_trimmed.

(* BEGIN PINS (tools/repin.py) *)
From WTP Require Import Gen.GenPins.
Module Pins.
Import String.
(* The models of this property were transcribed from: parser.py:TemplateNode.template_parameters, lua/_sandbox_phase2.lua:frame_args_index.
   Gen/GenPins.v holds the digests of these functions in the current source (translate/pins.py: syntax tree without
   docstrings, comments and layout).  A different digest means that the model is no longer known to describe the
   code; the check then reports the broken tie and looks for a failing input. *)
Theorem c14_models_describe_the_current_source :
  (pin_template_parameters, pin_lua_frame_args_index) = ("0e7cdc3bddd5cb8e", "1139f4740e06afaa")%string.
Proof. reflexivity. Qed.
Print Assumptions c14_models_describe_the_current_source.
End Pins.
(* END PINS *)
