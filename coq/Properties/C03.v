(** C03 — tables, HTML elements, links and template calls parse to their
    written structure (model: Model/Attrs.v; proofs: Proofs/AttrsProofs.v).
    PARTIAL: the theorem covers attribute maps (the part shared by tables,
    rows, cells and HTML elements) for every map; the r x c table structure,
    element content and argument lists are decided per run by execution
    against the structure the generator wrote. *)
From Coq Require Import List NArith Bool.
From WTP Require Import Base.Str Model.Attrs Proofs.AttrsProofs.
Import ListNotations.

(* Every attribute map with distinct URL-safe names (name characters, starting
   with a word character) and values free of double quotes, written the way
   to_attrs writes it (name="value", bare name for an empty value, separated
   by blanks), is read back by the parse_attrs scanner as exactly that map,
   in order - for maps of any size. *)
Theorem c03_attribute_map_roundtrip :
  forall m, Forall pair_ok m -> NoDup (keys m) -> parse_attrs (to_attrs m) = m.
Proof. exact attrs_roundtrip. Qed.
Print Assumptions c03_attribute_map_roundtrip.

(* the scanner itself, from any position after a non-word character *)
Theorem c03_scanner_reads_rendered_pairs :
  forall m, Forall pair_ok m -> forall fuel prev,
    (length m <= fuel)%nat ->
    match prev with Some p => word_char p = false | None => True end ->
    scan_attrs fuel prev (to_attrs m) = m.
Proof. exact scan_rendered. Qed.
Print Assumptions c03_scanner_reads_rendered_pairs.

(* BEGIN PINS (tools/repin.py) *)
From WTP Require Import Gen.GenPins.
Module Pins.
Import String.
(* The models of this property were transcribed from: parser.py:parse_attrs.
   Gen/GenPins.v holds the digests of these functions in the current source (translate/pins.py: syntax tree without
   docstrings, comments and layout).  A different digest means that the model is no longer known to describe the
   code; the check then reports the broken tie and looks for a failing input. *)
Theorem c03_models_describe_the_current_source :
  pin_parse_attrs = "251c31db2f03ea9f"%string.
Proof. reflexivity. Qed.
Print Assumptions c03_models_describe_the_current_source.
End Pins.
(* END PINS *)
