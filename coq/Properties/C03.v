(** C03 — tables, HTML elements, links and template calls parse to their
    written structure (models: Model/Attrs.v, Model/Tables.v; proofs:
    Proofs/AttrsProofs.v, Proofs/TablesProofs.v).
    PARTIAL: the theorems cover attribute maps (the part shared by tables,
    rows, cells and HTML elements) for every map, and the table structure for
    every written table (any number of rows and cells, both separator styles,
    caption, attributes, nested tables) at the level of the table handlers'
    tokens; cell contents other than text and tables, element content and
    argument lists are decided per run by execution against the structure the
    generator wrote. *)
From Coq Require Import List NArith Bool.
From WTP Require Import Base.Str Model.Attrs Proofs.AttrsProofs Model.Tables Proofs.TablesProofs.
From WTP Require Model.VbarSplit Proofs.VbarSplitProofs.
Import ListNotations.

(* Every written table -- "{|" with optional attributes, optional "|+" caption, any number of "|-" rows with optional
   attributes, each with one or more cells written at the start of a line ("|" / "!") or after "||" / "!!" on the line
   of the cell before, each cell with an optional attribute section and a content of texts and further tables -- is
   read by the table handlers (as transcribed in Model/Tables.v) into one TABLE node with exactly the written rows,
   each with exactly the written cells of the written kind, attributes and content, in order; the handlers never
   reach a case the machine does not transcribe, nothing is left open, and this holds at any nesting depth and under
   whatever is open on the parser stack below the table. *)
Theorem c03_tables_parse_to_written_grid :
  forall t, wf_table t = true -> parse (render_table t) = Some [CN (tree_table t)].
Proof. exact parse_written_table. Qed.
Print Assumptions c03_tables_parse_to_written_grid.

Theorem c03_table_is_one_child_of_what_is_open :
  forall t, wf_table t = true -> forall f rest,
    run (render_table t) (f :: rest) = Some (addchild f (CN (tree_table t)) :: rest).
Proof. exact table_parses_as_written. Qed.
Print Assumptions c03_table_is_one_child_of_what_is_open.

(* the prescribed tree is the r x c grid: as many rows as written, each with as many cells as written *)
Theorem c03_written_tree_is_the_grid :
  forall ta cap rows,
    tree_table (Table ta cap rows) = TN KTable (opt_attrs ta) (cap_tree cap ++ rows_tree rows)
    /\ length (rows_tree rows) = length rows
    /\ forall ra h first more,
         tree_row (Row ra h first more) = TN KRow (opt_attrs ra) (CN (tree_body (cell_kind h) first) :: cells_tree h more)
         /\ length (cells_tree h more) = length more.
Proof. intros ta cap rows. split; [apply tree_table_eq|]. split.
  - induction rows as [|r rows IH]; cbn [rows_tree length]; [reflexivity | rewrite IH; reflexivity].
  - intros ra h first more. split; [apply tree_row_eq|].
    revert h. induction more as [|[s b] more IH]; intros h; cbn [cells_tree length]; [reflexivity | rewrite IH; reflexivity].
Qed.
Print Assumptions c03_written_tree_is_the_grid.

(* the hypotheses are satisfiable: a 2 x 2 table with caption, attributes, a header line and a nested table *)
Example c03_a_written_table :
  let t := Table (Some (1%nat, true)) (Some (Body (Some (2%nat, true)) [IText (3%nat, true)]))
             [Row (Some (4%nat, true)) false (Body None [IText (5%nat, true)])
                  [Cell SDouble (Body (Some (6%nat, false)) [IText (7%nat, true); ITable (Table None None [Row None true (Body None []) [Cell SBang2 (Body None [IText (8%nat, true)])]])])];
              Row None true (Body None [IText (9%nat, true)]) [Cell (SBol false) (Body None [])]] in
  wf_table t = true /\ parse (render_table t) = Some [CN (tree_table t)].
Proof. split; reflexivity. Qed.

(* Argument lists: the text between the brackets of a template call, argument reference or link is cut at every "|"
   (core.py: vbar_split; texts with "<" are outside this model).  Every non-empty list of written arguments free of
   "|" and "<" -- empty arguments included -- comes back from the cut of its "|"-joined text. *)
Theorem c03_argument_lists_are_the_written_ones :
  forall args, args <> [] -> forallb VbarSplit.plain args = true ->
    VbarSplit.vbar_split (VbarSplit.join args) = Some args.
Proof. exact VbarSplitProofs.vbar_split_join. Qed.
Print Assumptions c03_argument_lists_are_the_written_ones.

(* Every attribute map with distinct URL-safe names (name characters, starting
   with a word character) and values free of double quotes, written the way
   to_attrs writes it (name="value", bare name for an empty value, separated
   by blanks), is read back by the parse_attrs scanner as exactly that map,
   in order - for maps of any size. *)
Theorem c03_attribute_map_roundtrip :
  forall m, Forall pair_ok m -> NoDup (keys m) -> parse_attrs (to_attrs m) = m.
Proof. exact attrs_roundtrip. Qed.
Print Assumptions c03_attribute_map_roundtrip.

(* the scanner itself, from any position after a non-word character *)
Theorem c03_scanner_reads_rendered_pairs :
  forall m, Forall pair_ok m -> forall fuel prev,
    (length m <= fuel)%nat ->
    match prev with Some p => word_char p = false | None => True end ->
    scan_attrs fuel prev (to_attrs m) = m.
Proof. exact scan_rendered. Qed.
Print Assumptions c03_scanner_reads_rendered_pairs.

(* BEGIN PINS (tools/repin.py) *)
From WTP Require Import Gen.GenPins.
Module Pins.
Import String.
(* The models of this property were transcribed from: parser.py:parse_attrs, parser.py:table_start_fn, parser.py:table_caption_fn, parser.py:table_row_fn, parser.py:table_hdr_cell_fn, parser.py:table_cell_fn, parser.py:double_vbar_fn, parser.py:vbar_fn, parser.py:table_end_fn, parser.py:table_check_attrs, parser.py:table_row_check_attrs, parser.py:check_for_attributes.
   Gen/GenPins.v holds the digests of these functions in the current source (translate/pins.py: syntax tree without
   docstrings, comments and layout).  A different digest means that the model is no longer known to describe the
   code; the check then reports the broken tie and looks for a failing input. *)
Theorem c03_models_describe_the_current_source :
  (pin_parse_attrs, pin_table_start_fn, pin_table_caption_fn, pin_table_row_fn, pin_table_hdr_cell_fn, pin_table_cell_fn, pin_double_vbar_fn, pin_vbar_fn, pin_table_end_fn, pin_table_check_attrs, pin_table_row_check_attrs, pin_check_for_attributes) = ("251c31db2f03ea9f", "20d7011fb7000668", "5236427f5da9d4d6", "df13828461ce05f8", "4525e4abe4010ca5", "63b55c3cbafdee41", "73240544b6fc6e17", "e799c125bcc56114", "56d5cfe719ca6dac", "07c792c734368fa2", "a06a8f4ccd2b3196", "225aea00660997bb")%string.
Proof. reflexivity. Qed.
Print Assumptions c03_models_describe_the_current_source.
End Pins.
(* END PINS *)
