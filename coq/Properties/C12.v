(** C12 — dump ingestion stores exactly the selected pages, byte for byte
    (models: Model/Dump.v on Model/Store.v; proofs: Proofs/DumpProofs.v). *)
From Coq Require Import List ZArith Bool.
From WTP Require Import Base.Str Model.Store Proofs.StoreProofs Model.Dump Proofs.DumpProofs.
Import ListNotations.

(* For every dump (any length, any duplicates) and namespace selection: the
   stored rows are the adds of exactly the selected pages, in dump order ... *)
Theorem c12_stores_exactly_the_selected_pages :
  forall tbl template_ns to_body nsset dump,
    parse_dump tbl template_ns to_body nsset dump =
    run_adds tbl template_ns to_body (map to_add (filter (selected nsset) dump)).
Proof. exact parse_dump_as_adds. Qed.
Print Assumptions c12_stores_exactly_the_selected_pages.

(* ... so that each (title, namespace) key holds the last selected page of the
   dump that normalises to it - with that page's title, body (templates: the
   includable part), model and redirect - and unselected pages leave no trace;
   keys are unique. *)
Theorem c12_each_key_holds_its_last_selected_page :
  forall tbl template_ns to_body nsset dump t ns,
    find (row_matches t (Some ns) false) (parse_dump tbl template_ns to_body nsset dump) =
    latest tbl template_ns to_body (rev (map to_add (filter (selected nsset) dump))) t ns.
Proof. exact parse_dump_lookup. Qed.
Print Assumptions c12_each_key_holds_its_last_selected_page.

Theorem c12_no_duplicate_keys :
  forall tbl template_ns to_body nsset dump, uniq (parse_dump tbl template_ns to_body nsset dump).
Proof. exact parse_dump_uniq. Qed.
Print Assumptions c12_no_duplicate_keys.

(* Canonical titles (carrying their namespace's prefix and not starting with
   "Main:") are stored verbatim: two different (title, namespace) pairs of a
   dump are therefore never merged into one row. *)
Theorem c12_canonical_titles_are_not_altered :
  forall tbl ns title, canonical tbl ns title -> add_norm tbl ns title = title.
Proof. exact canonical_stored_verbatim. Qed.
Print Assumptions c12_canonical_titles_are_not_altered.

(* BEGIN PINS (tools/repin.py) *)
From WTP Require Import Gen.GenPins.
Module Pins.
Import String.
(* The models of this property were transcribed from: dumpparser.py:parse_dump_xml.
   Gen/GenPins.v holds the digests of these functions in the current source (translate/pins.py: syntax tree without
   docstrings, comments and layout).  A different digest means that the model is no longer known to describe the
   code; the check then reports the broken tie and looks for a failing input. *)
Theorem c12_models_describe_the_current_source :
  pin_parse_dump_xml = "8c7e26e611c8eb1b"%string.
Proof. reflexivity. Qed.
Print Assumptions c12_models_describe_the_current_source.
End Pins.
(* END PINS *)
