(** C11 — restoring the page database from its backup is crash-safe
    (model: Model/FsDb.v; proofs: Proofs/FsDbProofs.v).
    PARTIAL by nature: SQLite's atomic commit / WAL recovery / backup API and
    the file system's rename are definitions of the model, power loss and
    fsync are not modelled; the model's steps are tied to the code by killing
    the real process at every executed line (harness/c11.py). *)
From Coq Require Import List Bool.
Import ListNotations.
From WTP Require Import Model.FsDb Proofs.FsDbProofs.

(* Kill the process after ANY number of steps of the backup + overwrite + close
   flow, then kill ANY number of reopen attempts after any number of their
   steps: the next completed open shows exactly the content that was backed
   up (the content before the overwrite) - never a later version, never a
   partial or empty database. *)
Theorem c11_crash_safe :
  forall k js, result (interrupted_reopens (crash_at s0 override_flow k) js) = Some Orig.
Proof. exact crash_safe. Qed.
Print Assumptions c11_crash_safe.

(* Without a backup, an interrupted overwrite shows the last committed
   content: the old one or the new one, nothing else. *)
Theorem c11_overwrite_atomic :
  forall k, let r := result (crash_at s0 (overwrite_flow ++ close_flow) k) in r = Some Orig \/ r = Some New.
Proof. exact overwrite_atomic. Qed.
Print Assumptions c11_overwrite_atomic.

(* BEGIN PINS (tools/repin.py) *)
From WTP Require Import Gen.GenPins.
Module Pins.
Import String.
(* The models of this property were transcribed from: core.py:Wtp.backup_db, core.py:Wtp.create_db.
   Gen/GenPins.v holds the digests of these functions in the current source (translate/pins.py: syntax tree without
   docstrings, comments and layout).  A different digest means that the model is no longer known to describe the
   code; the check then reports the broken tie and looks for a failing input. *)
Theorem c11_models_describe_the_current_source :
  (pin_backup_db, pin_create_db) = ("1b12ab8e0f25a055", "4de9491ebc932266")%string.
Proof. reflexivity. Qed.
Print Assumptions c11_models_describe_the_current_source.
End Pins.
(* END PINS *)
