(** C02 — section, list and rule structure follows the nesting model
    (models: Model/Nest.v, Model/Lists.v, Model/Blocks.v; proofs: Proofs/NestProofs.v,
    Proofs/ListsProofs.v, Proofs/BlocksProofs.v).
    Sections/rules/content and blocks of list lines have a theorem each, and
    their interleaving on whole pages (any other block closes the open lists,
    which become content of the innermost open section) a third one; the
    combined machine is compared with the real parser on every generated page. *)
From Coq Require Import List Arith.
Import ListNotations.
From WTP Require Import Model.Nest Proofs.NestProofs Model.Lists Proofs.ListsProofs.
From WTP Require Model.Blocks Proofs.BlocksProofs.

(* Whole pages: for EVERY sequence of headings (level >= 1), paragraphs, horizontal rules and list lines (non-empty
   markers) in any order, the line-by-line machine -- the list machine running on top of the section stack, every
   other block first closing all open lists -- builds exactly the tree of the specification: each maximal run of
   list lines forms the lists of the prefix rule, and these lists, the paragraphs, the rules and the sections nest
   by "a section absorbs what follows it until a heading of the same or a lower level". *)
Theorem c02_pages_follow_nesting_model :
  forall d, Forall Blocks.cblk_ok d -> Blocks.parse d = Blocks.spec d.
Proof. exact BlocksProofs.parse_spec. Qed.
Print Assumptions c02_pages_follow_nesting_model.

(* ... and the line-by-line machine is the section machine run on the page whose list runs have been replaced by
   the lists the list machine makes of them *)
Theorem c02_page_machine_is_sections_over_lists :
  forall d, Blocks.parse d = Nest.parse (Blocks.group Lists.parse [] d).
Proof. exact BlocksProofs.parse_is_grouped. Qed.
Print Assumptions c02_page_machine_is_sections_over_lists.

Example c02_a_page :
  let d := [Blocks.BH 2 1; Blocks.BLI [42] 1; Blocks.BLI [42; 35] 2; Blocks.BT 1; Blocks.BLI [35] 3;
            Blocks.BH 3 2; Blocks.BLI [42] 4; Blocks.BHR 1; Blocks.BT 2; Blocks.BH 2 3] in
  Forall Blocks.cblk_ok d /\
  Blocks.parse d =
    [ISec 2 1 [IT (PList (LL [42] [LI [42] 1 [LL [42; 35] [LI [42; 35] 2 []]]])); IT (PText 1); IT (PList (LL [35] [LI [35] 3 []]));
               ISec 3 2 [IT (PList (LL [42] [LI [42] 4 []]))]; IHR 1; IT (PText 2)];
     ISec 2 3 []].
Proof. split; [repeat constructor; discriminate | reflexivity]. Qed.

(* For EVERY sequence of headings (level >= 1), content blocks and horizontal
   rules, the left-to-right stack machine (pop while the open section's level
   is >= the new heading's; a rule pops sections deeper than level 2) builds
   exactly the tree of the declarative nesting model: a heading's section
   contains everything up to the next heading of the same or a lower level,
   and a rule stays inside sections of level <= 2 only. *)
Theorem c02_sections_follow_nesting_model :
  forall d, Forall blk_ok d -> Nest.parse d = Nest.spec d.
Proof. exact NestProofs.parse_spec. Qed.
Print Assumptions c02_sections_follow_nesting_model.



(* For EVERY block of list lines (any markers, any number of lines), the machine that has the shape of
   list_fn + pop_until_nth_list on the parser stack (pop until an open item with the same marker - then
   continue its list - or an open item whose marker the new one properly extends - then nest a new list in
   it - or the enclosing section - then start a new list) builds exactly the forest of the declarative model:
   an item takes the lists that follow it while their marker properly extends its own, then continues the
   following list if it has the same marker, otherwise starts its own list. *)
Theorem c02_lists_follow_nesting_model :
  forall d, Forall (fun line => fst line <> []) d -> Lists.parse d = Lists.spec d.
Proof. exact ListsProofs.parse_spec. Qed.
Print Assumptions c02_lists_follow_nesting_model.

(* On every stack reachable by list lines the depth correction pop_until_nth_list never pops anything
   (the open items' markers form a chain of proper prefixes, so there are never more open lists than the
   marker is long). *)
Theorem c02_depth_correction_is_idle :
  forall d m, Forall (fun line => fst line <> []) d -> m <> [] ->
    let st := fold_left Lists.step d ([], []) in
    pop_until_nth_list m (pop_loop (S (length (fst st))) m st) = pop_loop (S (length (fst st))) m st.
Proof. exact pop_until_never_pops. Qed.
Print Assumptions c02_depth_correction_is_idle.

(* non-vacuity: "*", "***", "**", "#", "**" *)
Example c02_lists_example :
  Lists.parse [([42],1); ([42;42;42],2); ([42;42],3); ([35],4); ([42;42],5)] =
  [LL [42] [LI [42] 1 [LL [42;42;42] [LI [42;42;42] 2 []]; LL [42;42] [LI [42;42] 3 []]]];
   LL [35] [LI [35] 4 []]; LL [42;42] [LI [42;42] 5 []]].
Proof. vm_compute. reflexivity. Qed.

(* BEGIN PINS (tools/repin.py) *)
From WTP Require Import Gen.GenPins.
Module Pins.
Import String.
(* The models of this property were transcribed from: parser.py:list_fn, parser.py:pop_until_nth_list, parser.py:subtitle_start_fn, parser.py:subtitle_end_fn, parser.py:hline_fn.
   Gen/GenPins.v holds the digests of these functions in the current source (translate/pins.py: syntax tree without
   docstrings, comments and layout).  A different digest means that the model is no longer known to describe the
   code; the check then reports the broken tie and looks for a failing input. *)
Theorem c02_models_describe_the_current_source :
  (pin_list_fn, pin_pop_until_nth_list, pin_subtitle_start_fn, pin_subtitle_end_fn, pin_hline_fn) = ("59381a14be7b68b2", "46b798dce11967a7", "d8702a868478747b", "0de3e9299c10db36", "f87337d8237c200b")%string.
Proof. reflexivity. Qed.
Print Assumptions c02_models_describe_the_current_source.
End Pins.
(* END PINS *)
