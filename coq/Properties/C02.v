(** C02 — section, list and rule structure follows the nesting model
    (model: Model/Nest.v; proofs: Proofs/NestProofs.v).
    PARTIAL: the theorem covers headings, horizontal rules and content blocks
    for every document; the list-nesting clause is decided per run by the
    reference in harness/c02.py against the real parser (no list theorem yet). *)
From Coq Require Import List Arith.
Import ListNotations.
From WTP Require Import Model.Nest Proofs.NestProofs.

(* For EVERY sequence of headings (level >= 1), content blocks and horizontal
   rules, the left-to-right stack machine (pop while the open section's level
   is >= the new heading's; a rule pops sections deeper than level 2) builds
   exactly the tree of the declarative nesting model: a heading's section
   contains everything up to the next heading of the same or a lower level,
   and a rule stays inside sections of level <= 2 only. *)
Theorem c02_sections_follow_nesting_model :
  forall d, Forall blk_ok d -> parse d = spec d.
Proof. exact parse_spec. Qed.
Print Assumptions c02_sections_follow_nesting_model.

