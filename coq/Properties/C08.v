(** C08 — the Lua frame API is equivalent to the corresponding wikitext
    (models: Model/ArgViews.v; proofs: Proofs/ArgViewsProofs.v, Proofs/FrameProofs.v).
    preprocess / callParserFunction / parent frames call the very same
    expander functions as the wikitext forms; their equivalence is decided per
    run by the metamorphic oracle of harness/c08.py on the real code. *)
From Coq Require Import List NArith Bool.
From WTP Require Import Base.Str Model.ArgViews Proofs.ArgViewsProofs Proofs.FrameProofs.
Import ListNotations.
Open Scope N_scope.

(* the arguments a module sees are the call's arguments as the expander binds
   them: positional numbered from 1 and verbatim, named trimmed *)
Theorem c08_frame_args_are_call_args :
  forall args, Forall arg_ok args -> view_lua args 1 = view_expander args 1.
Proof. intros args H. symmetry. exact (proj2 (views_agree args H 0)). Qed.
Print Assumptions c08_frame_args_are_call_args.

(* expandTemplate{title, args}: the expander binds exactly the given table,
   integer keys for positive numerals, values trimmed *)
Theorem c08_expand_template_binds_given_table :
  forall l, Forall (fun p => kt_ok (fst p)) l -> forall num,
    view_expander (map (fun p => fst p ++ eqc :: snd p) l) num
    = map (fun p => (name_key (fst p), strip_by sp_py (snd p))) l.
Proof. exact expand_template_args. Qed.
Print Assumptions c08_expand_template_binds_given_table.

(* frame:expandTemplate{title, args} builds the call {{title|k=v|...}} and expands it from inside the Lua callback, i.e.
   under a longer expansion path [stk] (page, template frames, #invoke, the Lua function, "frame:expandTemplate()").
   On the flat fragment of C04 (Model/FlatCall.v: plain name and arguments, a template of text and parameter references
   or no template) the result does not depend on that path: for every path shorter than the depth limit in which the
   template is not looping, and all sufficiently large fuel, the model gives what the same call gives written on the
   page, namely the transclusion rule's result. *)
From WTP Require Import Model.Expand Model.FlatCall Proofs.FlatCallProofs.
From Coq Require Import Arith.
Theorem c08_expand_template_is_the_call_on_the_page :
  forall pfnames lib opts stk name args,
    (length stk < 100)%nat -> detect_loop (stk ++ [FTemplate name]) = false ->
    flat_ok pfnames lib name args = true -> o_tfn opts = [] -> o_pfn opts = [] ->
    exists F, forall fuel, (F <= fuel)%nat ->
      expand_T pfnames lib opts fuel stk true (chars name :: args)
      = expand_T pfnames lib opts fuel [FTitle] true (chars name :: args) /\
      expand_T pfnames lib opts fuel stk true (chars name :: args) = Some (result_of lib name args).
Proof.
  intros pfnames lib opts stk name args Hd Hl Hok Ht Hp.
  destruct (flat_ok_premises pfnames lib name args Hok) as (H1 & H2 & H3 & H4 & H5).
  exact (flat_call_anywhere pfnames lib opts stk name args Hd Hl H1 H2 H3 H4 Ht Hp H5).
Qed.
Print Assumptions c08_expand_template_is_the_call_on_the_page.

(* the premises hold for a real path: {{b|k=v}} expanded from a Lua function invoked on the page *)
Example c08_a_path :
  let stk := [FTitle; FFn [35;105;110;118;111;107;101]; FFn [76;117;97]; FFn [102;114;97;109;101]] in
  (length stk < 100)%nat /\ detect_loop (stk ++ [FTemplate [98]]) = false.
Proof. split; [cbn; repeat constructor | reflexivity]. Qed.

(* frame:preprocess(t) expands t from inside the Lua callback, under a longer expansion path.  For t made of text and flat
   calls (C04's fragment), under every path below the depth limit on which none of the called templates is being
   expanded, the model gives what t gives on the page: every call replaced by the transclusion rule's result. *)
Theorem c08_preprocess_is_expansion_on_the_page :
  forall pfnames lib opts stk page,
    (length stk < 100)%nat -> forallb (flat_item pfnames lib) page = true -> fresh_items stk page = true ->
    o_tfn opts = [] -> o_pfn opts = [] ->
    exists F, forall fuel, (F <= fuel)%nat ->
      expand_recurse pfnames lib opts fuel stk true page = expand_recurse pfnames lib opts fuel [FTitle] true page /\
      expand_recurse pfnames lib opts fuel stk true page = Some (page_result lib page).
Proof. exact preprocess_anywhere. Qed.
Print Assumptions c08_preprocess_is_expansion_on_the_page.

(* ... and for t one #if, #ifeq or #switch call whose branches or case values hold text and flat calls: under every path
   below the depth limit (two frames are needed for the function itself) on which none of the called templates is being
   expanded, the result is the one on the page: the chosen branch with its calls replaced (C04's rules). *)
Theorem c08_preprocess_of_if_ifeq_switch_is_expansion_on_the_page :
  forall pfnames lib opts,
    o_parserfns opts = true -> o_tfn opts = [] -> o_pfn opts = [] ->
    (forall cond more, if_calls_ok pfnames lib cond more = true ->
      exists F, forall stk fuel, (length stk < 98)%nat -> forallb (fresh_items stk) more = true -> (F <= fuel)%nat ->
        expand_recurse pfnames lib opts fuel stk true [T ((if_head ++ cond)%list :: more)]
        = expand_recurse pfnames lib opts fuel [FTitle] true [T ((if_head ++ cond)%list :: more)] /\
        expand_recurse pfnames lib opts fuel stk true [T ((if_head ++ cond)%list :: more)]
        = Some (if_calls_result lib cond more)) /\
    (forall x more, ifeq_calls_ok pfnames lib x more = true ->
      exists F, forall stk fuel, (length stk < 98)%nat -> forallb (fresh_items stk) more = true -> (F <= fuel)%nat ->
        expand_recurse pfnames lib opts fuel stk true [T ((ifeq_head ++ x)%list :: more)]
        = expand_recurse pfnames lib opts fuel [FTitle] true [T ((ifeq_head ++ x)%list :: more)] /\
        expand_recurse pfnames lib opts fuel stk true [T ((ifeq_head ++ x)%list :: more)]
        = Some (ifeq_calls_result lib x more)) /\
    (forall x cases, plain x = true -> forallb (case_calls_ok pfnames lib) cases = true ->
      exists F, forall stk fuel, (length stk < 98)%nat -> forallb (fun kv => fresh_items stk (snd kv)) cases = true ->
        (F <= fuel)%nat ->
        expand_recurse pfnames lib opts fuel stk true [T ((switch_head ++ x)%list :: map mkcase cases)]
        = expand_recurse pfnames lib opts fuel [FTitle] true [T ((switch_head ++ x)%list :: map mkcase cases)] /\
        expand_recurse pfnames lib opts fuel stk true [T ((switch_head ++ x)%list :: map mkcase cases)]
        = Some (add_newline (switch_calls_result lib (strip_i x) cases None))).
Proof.
  intros pfnames lib opts Hpf Htfn Hpfn. split; [|split].
  - intros cond more Hok. exact (preprocess_if_anywhere pfnames lib opts cond more Hok Hpf Htfn Hpfn).
  - intros x more Hok. exact (preprocess_ifeq_anywhere pfnames lib opts x more Hok Hpf Htfn Hpfn).
  - intros x cases Hx Hok. exact (preprocess_switch_anywhere pfnames lib opts x cases Hx Hok Hpf Htfn Hpfn).
Qed.
Print Assumptions c08_preprocess_of_if_ifeq_switch_is_expansion_on_the_page.
