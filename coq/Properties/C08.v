(** C08 — the Lua frame API is equivalent to the corresponding wikitext
    (models: Model/ArgViews.v; proofs: Proofs/ArgViewsProofs.v, Proofs/FrameProofs.v).
    preprocess / callParserFunction / parent frames call the very same
    expander functions as the wikitext forms; their equivalence is decided per
    run by the metamorphic oracle of harness/c08.py on the real code. *)
From Coq Require Import List NArith Bool.
From WTP Require Import Base.Str Model.ArgViews Proofs.ArgViewsProofs Proofs.FrameProofs.
Import ListNotations.
Open Scope N_scope.

(* the arguments a module sees are the call's arguments as the expander binds
   them: positional numbered from 1 and verbatim, named trimmed *)
Theorem c08_frame_args_are_call_args :
  forall args, Forall arg_ok args -> view_lua args 1 = view_expander args 1.
Proof. intros args H. symmetry. exact (proj2 (views_agree args H 0)). Qed.
Print Assumptions c08_frame_args_are_call_args.

(* expandTemplate{title, args}: the expander binds exactly the given table,
   integer keys for positive numerals, values trimmed *)
Theorem c08_expand_template_binds_given_table :
  forall l, Forall (fun p => kt_ok (fst p)) l -> forall num,
    view_expander (map (fun p => fst p ++ eqc :: snd p) l) num
    = map (fun p => (name_key (fst p), strip_by sp_py (snd p))) l.
Proof. exact expand_template_args. Qed.
Print Assumptions c08_expand_template_binds_given_table.
