(** C13 — selective expansion expands exactly the selected templates and
    honours the hooks (model: Model/Expand.v with selection, switches and
    hooks, tied to Wtp.expand by per-run output and hook-log correspondence).
    PARTIAL: the selection rule is proved as one formula; that an unselected
    call is re-emitted with its (recursively treated) arguments and that the
    text comes back unchanged when nothing is selected are decided per run by
    the correspondence and the reference semantics, not by a theorem yet. *)
From Coq Require Import List NArith Bool.
From WTP Require Import Base.Str Model.Expand Proofs.ExpandProofs.
Import ListNotations.

(* check_template_need_expand's four cases are the single rule: stored, not
   excluded, and (explicitly selected or flagged for pre-expansion) *)
Theorem c13_selection_rule :
  forall lib sel name,
    need_expand lib sel name =
    match find_tpl lib name with
    | None => false
    | Some t => negb (opt_mem name (not_expand_names sel)) && (opt_mem name (expand_names sel) || t_pre t)
    end.
Proof. exact need_expand_spec. Qed.
Print Assumptions c13_selection_rule.

Theorem c13_missing_never_selected :
  forall lib sel name, find_tpl lib name = None -> need_expand lib sel name = false.
Proof. exact need_expand_missing. Qed.
Print Assumptions c13_missing_never_selected.

Theorem c13_excluded_never_selected :
  forall lib sel name l,
    not_expand_names sel = Some l -> in_names name l = true -> need_expand lib sel name = false.
Proof. exact need_expand_excluded. Qed.
Print Assumptions c13_excluded_never_selected.
