(** C13 — selective expansion expands exactly the selected templates and
    honours the hooks (model: Model/Expand.v with selection, switches and
    hooks, tied to Wtp.expand by per-run output and hook-log correspondence).
    PARTIAL: the selection rule is proved as one formula, and the identity
    clause is proved for pages of text, links and calls that are left alone;
    the hook clauses and the treatment of parser functions are decided per run
    by the correspondence and the reference semantics. *)
From Coq Require Import List NArith Bool.
From WTP Require Import Base.Str Model.Expand Proofs.ExpandProofs Proofs.IdentityProofs Proofs.HookProofs.
Import ListNotations.

(* check_template_need_expand's four cases are the single rule: stored, not
   excluded, and (explicitly selected or flagged for pre-expansion) *)
Theorem c13_selection_rule :
  forall lib sel name,
    need_expand lib sel name =
    match find_tpl lib name with
    | None => false
    | Some t => negb (opt_mem name (not_expand_names sel)) && (opt_mem name (expand_names sel) || t_pre t)
    end.
Proof. exact need_expand_spec. Qed.
Print Assumptions c13_selection_rule.

Theorem c13_missing_never_selected :
  forall lib sel name, find_tpl lib name = None -> need_expand lib sel name = false.
Proof. exact need_expand_missing. Qed.
Print Assumptions c13_missing_never_selected.

Theorem c13_excluded_never_selected :
  forall lib sel name l,
    not_expand_names sel = Some l -> in_names name l = true -> need_expand lib sel name = false.
Proof. exact need_expand_excluded. Qed.
Print Assumptions c13_excluded_never_selected.


(* With pre_expand (nothing is expanded by default) a page made of text, links and calls none of which is
   selected - names that are plain text, hold no colon, are not parser functions and for which
   check_template_need_expand says no - comes back exactly as written: every call is re-emitted as a call with
   the same name and (recursively untouched) arguments.  [render] is the text as written; it is also what
   finalisation prints for the untouched page. *)
Theorem c13_nothing_selected_identity :
  forall pfnames lib opts nwmap e,
    inert pfnames lib opts e = true -> (ldepth e < 99)%nat ->
    exists f0, forall f, (f0 <= f)%nat ->
      expand_page pfnames nwmap lib opts true f e = Some (render e) /\
      finalize f nwmap e = render e.
Proof. exact identity. Qed.
Print Assumptions c13_nothing_selected_identity.

(* non-vacuity: "a {{t|x [[l|{{u}}]]}} b" with a stored but unselected template t *)
Example c13_identity_example :
  let lib := [mktpl [84] (chars [66]) false] in
  let opts := mkopts true (mksel None None) true [] [] in
  let page := [Ch 97; Ch 32; T [[Ch 116]; [Ch 120; Ch 32; L [[Ch 108]; [T [[Ch 117]]]]]]; Ch 32; Ch 98] in
  inert [[35;105;102]] lib opts page = true /\
  expand_page [[35;105;102]] [] lib opts true 50 page = Some (render page).
Proof. vm_compute. split; reflexivity. Qed.


(* The hooks: when template_fn returns a string r for an expanded call (a call to a template - plain name, no
   colon, not a parser function - that is selected or met while everything is expanded; not a loop, not too deep),
   the call expands to r - with the automatic line break before a block marker, and replaced by post_template_fn's
   result when that hook returns one - whatever the template's body is; the arguments are still bound (a failure
   there is the only other outcome). *)
Theorem c13_template_fn_result_replaces_the_call :
  forall pfnames lib opts f stk ea (a0 : list item) (more : list (list item)) r,
    expanded_call pfnames lib opts ea a0 = true -> (length stk < 100)%nat -> (length a0 < f)%nat ->
    let name := codes (strip_i a0) in
    detect_loop (stk ++ [FTemplate name]) = false ->
    hook_ret (o_tfn opts) name = Some r ->
    expand_T pfnames lib opts (S f) stk ea (a0 :: more) =
    match build_args pfnames lib opts f (stk ++ [FTemplate name]) more 1 [] with
    | None => None
    | Some _ => Some (post_of opts name (chars r))
    end.
Proof. exact expand_T_hooked. Qed.
Print Assumptions c13_template_fn_result_replaces_the_call.

(* "Exactly the selected templates are replaced by their expansion and every other call is emitted as a call with the same
   name and arguments", on the flat fragment of C04 (Model/FlatCall.v): for every library, every selection, every page of
   text and calls with plain names and arguments to templates of text and parameter references (or to no template), with
   or without pre_expand, and all sufficiently large fuel, the expander model returns the page in which each call that is
   selected (all of them without pre_expand) is replaced by the transclusion rule's result and each other call stands as
   it was written. *)
From WTP Require Import Model.FlatCall Proofs.FlatCallProofs.
From Coq Require Import Arith.
Theorem c13_flat_pages_expand_exactly_the_selected_calls :
  forall pfnames lib opts nwmap pre page,
    forallb (flat_item pfnames lib) page = true -> o_tfn opts = [] -> o_pfn opts = [] ->
    exists F, forall fuel, (F <= fuel)%nat ->
      expand_page pfnames nwmap lib opts pre fuel page = Some (codes (page_result_sel lib (o_sel opts) pre page)).
Proof. exact flat_pages_sel. Qed.
Print Assumptions c13_flat_pages_expand_exactly_the_selected_calls.

(* a page with a selected and an unselected call: "{{s|x}} {{u|y}}", Template:s = "<{{{1}}}>" flagged for pre-expansion,
   Template:u = "[{{{1}}}]" not: the result is "<x> {{u|y}}" *)
Example c13_flat_selection_example :
  let lib := [mktpl [83] [Ch 60; A [chars [49]]; Ch 62] true; mktpl [85] [Ch 91; A [chars [49]]; Ch 93] false] in
  let page := [T [chars [115]; chars [120]]; Ch 32; T [chars [117]; chars [121]]] in
  forallb (flat_item [] lib) page = true /\
  codes (page_result_sel lib (mksel None None) true page) = [60; 120; 62; 32; 123; 123; 117; 124; 121; 125; 125]%N.
Proof. split; vm_compute; reflexivity. Qed.

(* expand_parserfns = False: an #if call (plain condition) is not evaluated but emitted as written - name, condition without
   the blanks around it, the other arguments untouched (the calls in them are not expanded either), under every path *)
Theorem c13_if_is_emitted_as_written_when_switched_off :
  forall pfnames lib opts stk ea cond more,
    (length stk < 100)%nat -> plain cond = true -> o_parserfns opts = false ->
    exists F, forall fuel, (F <= fuel)%nat ->
      expand_T pfnames lib opts fuel stk ea ((if_head ++ cond)%list :: more)
      = Some (chars s_lbrace2 ++ chars [35; 105; 102]%N ++ [Ch 58] ++ join_i vbar (lstrip_i (rstrip_i cond) :: more)
              ++ chars s_rbrace2)%list.
Proof. exact if_switched_off. Qed.
Print Assumptions c13_if_is_emitted_as_written_when_switched_off.

Example c13_if_switched_off_example :   (* {{#if: x |{{t}}| b}} with expand_parserfns off gives {{#if:x|{{t}}| b}}: the model run itself *)
  let opts := mkopts false (mksel None None) false [] [] in
  option_map render
    (expand_T [] [mktpl [84] [Ch 84; Ch 84] false] opts 40 [FTitle] true
              ((if_head ++ [Ch 32; Ch 120; Ch 32])%list :: [[T [[Ch 116]]]; [Ch 32; Ch 98]]))
  = Some [123; 123; 35; 105; 102; 58; 120; 124; 123; 123; 116; 125; 125; 124; 32; 98; 125; 125]%N.
Proof. vm_compute. reflexivity. Qed.

(* BEGIN PINS (tools/repin.py) *)
From WTP Require Import Gen.GenPins.
Module Pins.
Import String.
(* The models of this property were transcribed from: core.py:Wtp.check_template_need_expand.
   Gen/GenPins.v holds the digests of these functions in the current source (translate/pins.py: syntax tree without
   docstrings, comments and layout).  A different digest means that the model is no longer known to describe the
   code; the check then reports the broken tie and looks for a failing input. *)
Theorem c13_models_describe_the_current_source :
  pin_check_template_need_expand = "dec87a45c0493e21"%string.
Proof. reflexivity. Qed.
Print Assumptions c13_models_describe_the_current_source.
End Pins.
(* END PINS *)
