(** C19 — serialising a parse tree back to wikitext preserves it
    (models: Model/Attrs.v, Model/ToWikitext.v, Model/TableEmit.v over
    Model/Tables.v).
    PARTIAL: proved for all inputs — attribute maps survive the
    to_attrs / parse_attrs round trip, the text protection leaves no
    double bracket in any string (so literal brackets cannot be re-read as a
    link) and only inserts markers, and every table tree of the shape the
    parser builds is read back from what to_wikitext writes for it as exactly
    that tree (at the level of the table handlers' tokens, any size and
    nesting).  The equivalence of whole trees of other kinds after
    to_wikitext + parse and the fixed-point clause are decided per run by
    execution (three parses per generated document). *)
From Coq Require Import List NArith Bool.
From WTP Require Import Base.Str Model.Attrs Model.ToWikitext Proofs.AttrsProofs Proofs.ToWikitextProofs.
From WTP Require Model.Tables Model.TableEmit Proofs.TablesProofs Proofs.TableEmitProofs.
From WTP Require Model.Blocks Proofs.BlocksProofs Proofs.BlocksEmitProofs.
Import ListNotations.

Theorem c19_attributes_survive :
  forall m, Forall pair_ok m -> NoDup (keys m) -> parse_attrs (to_attrs m) = m.
Proof. exact attrs_roundtrip. Qed.
Print Assumptions c19_attributes_survive.

Theorem c19_no_double_bracket_after_protection :
  forall s, no_double (protect s) = true.
Proof. exact protect_no_double. Qed.
Print Assumptions c19_no_double_bracket_after_protection.

Theorem c19_protection_only_inserts_markers :
  forall s, unprotect (protect s) s = s.
Proof. exact unprotect_protect. Qed.
Print Assumptions c19_protection_only_inserts_markers.

(* Tables.  [emit] is what the TABLE / TABLE_CAPTION / TABLE_ROW / TABLE_HEADER_CELL / TABLE_CELL emitters of
   to_wikitext write, as the tokens the parser makes of it; [shaped] is the shape of the table trees the parser builds
   (at most one attribute atom per node, an optional caption first, rows of at least one cell, cell content of
   non-empty strings and tables with no two strings in a row).  Every such tree, of any size and nesting depth, is
   read back as itself. *)
Module TablesRoundTrip.
Import Tables TableEmit TablesProofs TableEmitProofs.
Theorem c19_table_trees_survive_the_round_trip :
  forall fuel T, shaped fuel T = true -> parse (emit T) = Some [CN T].
Proof. exact emitted_table_parses_back. Qed.
Print Assumptions c19_table_trees_survive_the_round_trip.

(* ... and the trees of written tables have that shape: parse, to_wikitext, parse gives the first tree again *)
Theorem c19_written_tables_round_trip :
  forall t, wf_table t = true ->
    parse (render_table t) = Some [CN (tree_table t)] /\ parse (emit (tree_table t)) = Some [CN (tree_table t)].
Proof. exact written_table_round_trip. Qed.
Print Assumptions c19_written_tables_round_trip.

Example c19_a_table_tree :
  let T := TN KTable [1%nat]
             [CN (TN KCaption [] [CS [(2%nat, true)]]);
              CN (TN KRow [3%nat] [CN (TN KCell [4%nat] [CS [(5%nat, true); (6%nat, false)]]);
                                   CN (TN KHdr [] [CS [(7%nat, true)]; CN (TN KTable [] [CN (TN KRow [] [CN (TN KCell [] [])])]); CS [(8%nat, true)]])]);
              CN (TN KRow [] [CN (TN KHdr [] [])])] in
  shaped 5 T = true /\ parse (emit T) = Some [CN T].
Proof. split; reflexivity. Qed.
End TablesRoundTrip.

(* Blocks.  Writing a page tree back in document order -- a heading line per section, a line per paragraph, rule and
   list item, which is what the LEVEL / HLINE / LIST / LIST_ITEM emitters of to_wikitext do -- gives the very lines the
   page was parsed from; so parsing what was written gives the same tree, for every page of headings, paragraphs,
   rules and list lines in any order. *)
Module BlocksRoundTrip.
Import Blocks BlocksProofs BlocksEmitProofs.
Theorem c19_blocks_written_back_are_the_page :
  forall d, blocks_of_forest (Blocks.spec d) = d.
Proof. exact written_back_is_the_page. Qed.
Print Assumptions c19_blocks_written_back_are_the_page.

Theorem c19_block_structure_survives_the_round_trip :
  forall d, Forall cblk_ok d -> Blocks.parse (blocks_of_forest (Blocks.parse d)) = Blocks.parse d.
Proof. exact blocks_round_trip_of_parsed. Qed.
Print Assumptions c19_block_structure_survives_the_round_trip.
End BlocksRoundTrip.

(* BEGIN PINS (tools/repin.py) *)
From WTP Require Import Gen.GenPins.
Module Pins.
Import String.
(* The models of this property were transcribed from: node_expand.py:to_wikitext, node_expand.py:to_attrs.
   Gen/GenPins.v holds the digests of these functions in the current source (translate/pins.py: syntax tree without
   docstrings, comments and layout).  A different digest means that the model is no longer known to describe the
   code; the check then reports the broken tie and looks for a failing input. *)
Theorem c19_models_describe_the_current_source :
  (pin_to_wikitext, pin_to_attrs) = ("63330b9755293960", "0b0a6f06c00ccd8c")%string.
Proof. reflexivity. Qed.
Print Assumptions c19_models_describe_the_current_source.
End Pins.
(* END PINS *)
