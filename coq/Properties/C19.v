(** C19 — serialising a parse tree back to wikitext preserves it
    (models: Model/Attrs.v, Model/ToWikitext.v).
    PARTIAL: proved for all inputs — attribute maps survive the
    to_attrs / parse_attrs round trip, and the text protection leaves no
    double bracket in any string (so literal brackets cannot be re-read as a
    link) and only inserts markers.  The equivalence of whole trees after
    to_wikitext + parse and the fixed-point clause are decided per run by
    execution (three parses per generated document). *)
From Coq Require Import List NArith Bool.
From WTP Require Import Base.Str Model.Attrs Model.ToWikitext Proofs.AttrsProofs Proofs.ToWikitextProofs.
Import ListNotations.

Theorem c19_attributes_survive :
  forall m, Forall pair_ok m -> NoDup (keys m) -> parse_attrs (to_attrs m) = m.
Proof. exact attrs_roundtrip. Qed.
Print Assumptions c19_attributes_survive.

Theorem c19_no_double_bracket_after_protection :
  forall s, no_double (protect s) = true.
Proof. exact protect_no_double. Qed.
Print Assumptions c19_no_double_bracket_after_protection.

Theorem c19_protection_only_inserts_markers :
  forall s, unprotect (protect s) s = s.
Proof. exact unprotect_protect. Qed.
Print Assumptions c19_protection_only_inserts_markers.

(* BEGIN PINS (tools/repin.py) *)
From WTP Require Import Gen.GenPins.
Module Pins.
Import String.
(* The models of this property were transcribed from: node_expand.py:to_wikitext, node_expand.py:to_attrs.
   Gen/GenPins.v holds the digests of these functions in the current source (translate/pins.py: syntax tree without
   docstrings, comments and layout).  A different digest means that the model is no longer known to describe the
   code; the check then reports the broken tie and looks for a failing input. *)
Theorem c19_models_describe_the_current_source :
  (pin_to_wikitext, pin_to_attrs) = ("4b5684c489600fcf", "0b0a6f06c00ccd8c")%string.
Proof. reflexivity. Qed.
Print Assumptions c19_models_describe_the_current_source.
End Pins.
(* END PINS *)
