(** C19 — serialising a parse tree back to wikitext preserves it
    (models: Model/Attrs.v, Model/ToWikitext.v).
    PARTIAL: proved for all inputs — attribute maps survive the
    to_attrs / parse_attrs round trip, and the text protection leaves no
    double bracket in any string (so literal brackets cannot be re-read as a
    link) and only inserts markers.  The equivalence of whole trees after
    to_wikitext + parse and the fixed-point clause are decided per run by
    execution (three parses per generated document). *)
From Coq Require Import List NArith Bool.
From WTP Require Import Base.Str Model.Attrs Model.ToWikitext Proofs.AttrsProofs Proofs.ToWikitextProofs.
Import ListNotations.

Theorem c19_attributes_survive :
  forall m, Forall pair_ok m -> NoDup (keys m) -> parse_attrs (to_attrs m) = m.
Proof. exact attrs_roundtrip. Qed.
Print Assumptions c19_attributes_survive.

Theorem c19_no_double_bracket_after_protection :
  forall s, no_double (protect s) = true.
Proof. exact protect_no_double. Qed.
Print Assumptions c19_no_double_bracket_after_protection.

Theorem c19_protection_only_inserts_markers :
  forall s, unprotect (protect s) s = s.
Proof. exact unprotect_protect. Qed.
Print Assumptions c19_protection_only_inserts_markers.
