(** C06 — Lua code from pages is confined to the sandbox
    (graph: Gen/GenGraph.v, read from a live runtime on every run by
    translate/graph.py; closure: Model/Analyze.v's worklist; proofs:
    Proofs/GraphProofs.v).
    PARTIAL: the theorem is exact for the extracted graph; the extraction
    (which edges exist: table fields, metatables, what lupa lets Lua read from
    a Python object, what require()/_cached_mod() return for every host
    package name) is done by really performing those accesses in the live
    runtime, but the summaries of other callable objects (a Lua closure may
    compute new values) are not modelled: the attack corpus of
    harness/c06_probes.py is executed for real to cover them. *)
From Coq Require Import List Arith Bool.
Import ListNotations.
From WTP Require Import Model.Analyze Proofs.AnalyzeProofs Proofs.GraphProofs Gen.GenGraph.

(* generic: a program can only hold references inside the closure *)
Theorem c06_programs_stay_in_the_closure :
  forall edges roots prog held,
    (forall x, In x held -> Clo edges roots x) ->
    forall x, In x (run_prog edges held prog) -> Clo edges roots x.
Proof. exact confinement. Qed.
Print Assumptions c06_programs_stay_in_the_closure.

(* the graph of the current runtime: no forbidden node (host io/os/package/debug tables and functions, the real
   global table, load/loadstring/dofile/loadfile/setfenv/getfenv, the lupa bridge, any Python object that is not a
   helper callable or an immutable value) is in the closure of what a module receives *)
Theorem c06_closure_has_no_forbidden_node :
  graph_ok n edges roots = true /\
  forallb (fun x => negb (mem x forbidden)) (fst (propagate n edges roots)) = true.
Proof. split; vm_compute; reflexivity. Qed.
Print Assumptions c06_closure_has_no_forbidden_node.

(* hence no program over this graph ever holds a forbidden reference *)
Theorem c06_confined :
  forall prog x, In x (run_prog edges roots prog) -> ~ In x forbidden.
Proof. exact (closure_confines n edges roots forbidden (proj1 c06_closure_has_no_forbidden_node)
                               (proj2 c06_closure_has_no_forbidden_node)). Qed.
Print Assumptions c06_confined.
