(** List nesting (C02): the part of parser.py:list_fn / pop_until_nth_list that
    runs on a block of consecutive "*"/"#" list lines, as a machine over the
    parser stack (open LIST / LIST_ITEM nodes above the enclosing section),
    and the right-to-left specification written from the property text:
    an item takes the lists that follow it while their marker properly extends
    its own, then continues the following list if that has the same marker,
    otherwise starts a list of its own. *)
From Coq Require Import List Arith Bool.
Import ListNotations.

Definition marker := list nat.       (* code points of the line's marker, e.g. [42;35] for "*#" *)
Inductive lnode := LL (m : marker) (items : list lnode) | LI (m : marker) (id : nat) (subs : list lnode).

Fixpoint marker_eqb (a b : marker) : bool :=
  match a, b with
  | [], [] => true
  | x :: a', y :: b' => Nat.eqb x y && marker_eqb a' b'
  | _, _ => false
  end.
(* list_fn: len(node.sarg) < len(token) and every character of sarg equals the token's *)
Fixpoint prefixb (a b : marker) : bool :=
  match a, b with
  | [], _ => true
  | x :: a', y :: b' => Nat.eqb x y && prefixb a' b'
  | _ :: _, [] => false
  end.
Definition extends (a b : marker) : bool := Nat.ltb (length a) (length b) && prefixb a b.   (* a is a proper prefix of b *)

(** ** The machine (stack top first; children lists reversed) *)
Inductive node := NL (m : marker) (ch : list lnode) | NI (m : marker) (id : nat) (ch : list lnode).
Definition close (n : node) : lnode :=
  match n with NL m ch => LL m (rev ch) | NI m id ch => LI m id (rev ch) end.
Definition addchild (n : node) (c : lnode) : node :=
  match n with NL m ch => NL m (c :: ch) | NI m id ch => NI m id (c :: ch) end.
Definition state := (list node * list lnode)%type.     (* open nodes, finished top-level lists (reversed) *)

Definition pop (st : state) : state :=
  match st with
  | (n :: p :: r, roots) => (addchild p (close n) :: r, roots)
  | ([n], roots) => ([], close n :: roots)
  | ([], roots) => st
  end.

(* the "while True" loop of list_fn: stops at an item with the same marker (after popping it), at an item whose
   marker the new one properly extends, or at the enclosing section *)
Fixpoint pop_loop (fuel : nat) (m : marker) (st : state) : state :=
  match fuel with
  | O => st
  | S f =>
    match fst st with
    | [] => st
    | NI s _ _ :: _ => if marker_eqb s m then pop st else if extends s m then st else pop_loop f m (pop st)
    | NL _ _ :: _ => pop_loop f m (pop st)
    end
  end.

(* pop_until_nth_list: walk the stack from the bottom, stop at the len(token)-th LIST; pop everything above it *)
Fixpoint nodes_upto_nth_list (bottom_first : list node) (n : nat) : nat :=
  match bottom_first with
  | [] => 0
  | NL _ _ :: r => match n with 0 => 0 | 1 => 1 | S n' => S (nodes_upto_nth_list r n') end
  | NI _ _ _ :: r => S (nodes_upto_nth_list r n)
  end.
Fixpoint pops (k : nat) (st : state) : state := match k with O => st | S k' => pops k' (pop st) end.
Definition pop_until_nth_list (m : marker) (st : state) : state :=
  let passed := nodes_upto_nth_list (rev (fst st)) (length m) in
  pops (length (fst st) - passed) st.

Definition push_item (m : marker) (id : nat) (st : state) : state :=
  match fst st with
  | NL _ _ :: _ => (NI m id [] :: fst st, snd st)
  | _ => (NI m id [] :: NL m [] :: fst st, snd st)
  end.

Definition step (st : state) (line : marker * nat) : state :=
  let (m, id) := line in
  push_item m id (pop_until_nth_list m (pop_loop (S (length (fst st))) m st)).

Definition finish (st : state) : list lnode := rev (snd (pops (length (fst st)) st)).
Definition parse (d : list (marker * nat)) : list lnode := finish (fold_left step d ([], [])).

(** ** The specification *)
Fixpoint span {A} (p : A -> bool) (xs : list A) : list A * list A :=
  match xs with
  | [] => ([], [])
  | x :: r => if p x then let (a, b) := span p r in (x :: a, b) else ([], xs)
  end.
Definition lmarker (n : lnode) : marker := match n with LL m _ => m | LI m _ _ => m end.
Definition place (line : marker * nat) (forest : list lnode) : list lnode :=
  let (m, id) := line in
  let (a, b) := span (fun l => extends m (lmarker l)) forest in
  let item := LI m id a in
  match b with
  | LL m' items :: b' => if marker_eqb m' m then LL m (item :: items) :: b' else LL m [item] :: b
  | _ => LL m [item] :: b
  end.
Definition spec (d : list (marker * nat)) : list lnode := fold_right place [] d.

(* comparison for the correspondence check *)
Fixpoint lnode_eqb (fuel : nat) (a b : lnode) : bool :=
  match fuel with
  | O => false
  | S f =>
    let fix go (x y : list lnode) : bool :=
      match x, y with
      | [], [] => true
      | p :: x', q :: y' => lnode_eqb f p q && go x' y'
      | _, _ => false
      end in
    match a, b with
    | LL m x, LL m' y => marker_eqb m m' && go x y
    | LI m i x, LI m' i' y => marker_eqb m m' && Nat.eqb i i' && go x y
    | _, _ => false
    end
  end.
Fixpoint forest_eqb (fuel : nat) (x y : list lnode) : bool :=
  match x, y with
  | [], [] => true
  | p :: x', q :: y' => lnode_eqb fuel p q && forest_eqb fuel x' y'
  | _, _ => false
  end.
