(** History independence from footprints (C09).  A context is a valuation of
    fields; [start] is start_page (it overwrites the [reset] fields with values
    that depend only on the new page), [proc] is everything done for one page
    afterwards.  Nothing is assumed about [proc] except its footprint. *)
From Coq Require Import List Bool String.
Import ListNotations.

Section Footprint.
  Variable V O P : Type.                 (* field values, observations, pages *)
  Definition ctx := string -> V.
  Variable reset : list string.          (* fields start_page assigns *)
  Variable init : P -> string -> V.      (* the value start_page gives a reset field *)
  Variable proc : P -> ctx -> ctx * O.   (* processing one page after start_page *)

  Definition mem (f : string) (l : list string) : bool := existsb (String.eqb f) l.

  Definition start (p : P) (c : ctx) : ctx := fun f => if mem f reset then init p f else c f.

  (* fields processing may change *)
  Variable written : list string.
  Hypothesis proc_frame : forall p c f, mem f written = false -> fst (proc p c) f = c f.
  (* processing is a function of the context (no hidden global state) *)
  Definition agree (c1 c2 : ctx) (fs : string -> bool) : Prop := forall f, fs f = true -> c1 f = c2 f.
  (* fields that carry information from one page to the next: written but not reset *)
  Definition leaky (f : string) : bool := mem f written && negb (mem f reset).
  (* processing does not depend on leaky fields (they are re-initialised before use, balanced, or handles) *)
  Hypothesis proc_ignores_leaky :
    forall p c1 c2, agree c1 c2 (fun f => negb (leaky f)) ->
      snd (proc p c1) = snd (proc p c2) /\ agree (fst (proc p c1)) (fst (proc p c2)) (fun f => negb (leaky f)).

  Definition run_page (c : ctx) (p : P) : ctx * O := proc p (start p c).

  Fixpoint run_history (c : ctx) (h : list P) : ctx :=
    match h with [] => c | p :: r => run_history (fst (run_page c p)) r end.

  Lemma start_agree p c1 c2 : agree c1 c2 (fun f => negb (leaky f)) -> agree (start p c1) (start p c2) (fun f => negb (leaky f)).
  Proof. intros H f Hf. unfold start. destruct (mem f reset); [reflexivity | apply H; exact Hf]. Qed.

  Lemma history_agree h : forall c1 c2, agree c1 c2 (fun f => negb (leaky f)) ->
    agree (run_history c1 h) (run_history c2 h) (fun f => negb (leaky f)).
  Proof. induction h as [|p r IH]; intros c1 c2 H; [exact H|]. cbn [run_history]. apply IH.
    unfold run_page. apply proc_ignores_leaky. apply start_agree. exact H. Qed.

  (* non-leaky fields that processing never writes keep their value through any history *)
  Lemma history_frame h : forall c f, mem f written = false -> mem f reset = false -> run_history c h f = c f.
  Proof. induction h as [|p r IH]; intros c f Hw Hr; [reflexivity|]. cbn [run_history]. rewrite IH by assumption.
    unfold run_page. rewrite proc_frame by exact Hw. unfold start. rewrite Hr. reflexivity. Qed.

  (* The observation for a page after ANY history equals the observation on the initial context *)
  Theorem history_independent (c0 : ctx) (h : list P) (p : P) :
    snd (run_page (run_history c0 h) p) = snd (run_page c0 p).
  Proof. unfold run_page. apply proc_ignores_leaky. intros f Hf. unfold start.
    destruct (mem f reset) eqn:Hr; [reflexivity|].
    apply negb_true_iff in Hf. unfold leaky in Hf. rewrite Hr in Hf. cbn [negb] in Hf. rewrite andb_true_r in Hf.
    apply history_frame; assumption. Qed.
End Footprint.

(** the bookkeeping the regenerated field sets must satisfy: every field written
    while processing a page is reset by start_page, re-initialised by the parse
    prologue before it is read, or explicitly justified *)
Definition covered (written resets prologue justified : list string) : bool :=
  forallb (fun f => existsb (String.eqb f) resets || existsb (String.eqb f) prologue || existsb (String.eqb f) justified) written.
