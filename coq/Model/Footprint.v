(** History independence from footprints (C09).  A context is a valuation of
    fields; [start] is start_page (it overwrites the [reset] fields with values
    that depend only on the new page), [proc] is everything done for one page
    afterwards.  Nothing is assumed about [proc] except its footprint. *)
From Coq Require Import List Bool String.
Import ListNotations.

Section Footprint.
  Variable V O P : Type.                 (* field values, observations, pages *)
  Definition ctx := string -> V.
  Variable reset : list string.          (* fields start_page assigns *)
  Variable init : P -> string -> V.      (* the value start_page gives a reset field *)
  Variable proc : P -> ctx -> ctx * O.   (* processing one page after start_page *)

  Definition mem (f : string) (l : list string) : bool := existsb (String.eqb f) l.

  Definition start (p : P) (c : ctx) : ctx := fun f => if mem f reset then init p f else c f.

  (* fields processing may change *)
  Variable written : list string.
  Hypothesis proc_frame : forall p c f, mem f written = false -> fst (proc p c) f = c f.
  (* processing is a function of the context (no hidden global state) *)
  Definition agree (c1 c2 : ctx) (fs : string -> bool) : Prop := forall f, fs f = true -> c1 f = c2 f.
  (* fields that carry information from one page to the next: written but not reset *)
  Definition leaky (f : string) : bool := mem f written && negb (mem f reset).
  (* processing does not depend on leaky fields (they are re-initialised before use, balanced, or handles) *)
  Hypothesis proc_ignores_leaky :
    forall p c1 c2, agree c1 c2 (fun f => negb (leaky f)) ->
      snd (proc p c1) = snd (proc p c2) /\ agree (fst (proc p c1)) (fst (proc p c2)) (fun f => negb (leaky f)).

  Definition run_page (c : ctx) (p : P) : ctx * O := proc p (start p c).

  Fixpoint run_history (c : ctx) (h : list P) : ctx :=
    match h with [] => c | p :: r => run_history (fst (run_page c p)) r end.

  Lemma start_agree p c1 c2 : agree c1 c2 (fun f => negb (leaky f)) -> agree (start p c1) (start p c2) (fun f => negb (leaky f)).
  Proof. intros H f Hf. unfold start. destruct (mem f reset); [reflexivity | apply H; exact Hf]. Qed.

  Lemma history_agree h : forall c1 c2, agree c1 c2 (fun f => negb (leaky f)) ->
    agree (run_history c1 h) (run_history c2 h) (fun f => negb (leaky f)).
  Proof. induction h as [|p r IH]; intros c1 c2 H; [exact H|]. cbn [run_history]. apply IH.
    unfold run_page. apply proc_ignores_leaky. apply start_agree. exact H. Qed.

  (* non-leaky fields that processing never writes keep their value through any history *)
  Lemma history_frame h : forall c f, mem f written = false -> mem f reset = false -> run_history c h f = c f.
  Proof. induction h as [|p r IH]; intros c f Hw Hr; [reflexivity|]. cbn [run_history]. rewrite IH by assumption.
    unfold run_page. rewrite proc_frame by exact Hw. unfold start. rewrite Hr. reflexivity. Qed.

  (* The observation for a page after ANY history equals the observation on the initial context *)
  Theorem history_independent (c0 : ctx) (h : list P) (p : P) :
    snd (run_page (run_history c0 h) p) = snd (run_page c0 p).
  Proof. unfold run_page. apply proc_ignores_leaky. intros f Hf. unfold start.
    destruct (mem f reset) eqn:Hr; [reflexivity|].
    apply negb_true_iff in Hf. unfold leaky in Hf. rewrite Hr in Hf. cbn [negb] in Hf. rewrite andb_true_r in Hf.
    apply history_frame; assumption. Qed.
End Footprint.

(** the bookkeeping the regenerated field sets must satisfy: every field written
    while processing a page is reset by start_page, re-initialised by the parse
    prologue before it is read, or explicitly justified *)
Definition covered (written resets prologue justified : list string) : bool :=
  forallb (fun f => existsb (String.eqb f) resets || existsb (String.eqb f) prologue || existsb (String.eqb f) justified) written.

(** Memoised functions (lru_cache and the like): their kept results are state that start_page does not reset.  One is
    accounted for when it is listed with a reason (it depends only on its arguments and on the pages table) and every
    function that writes the pages table keeps it fresh: it clears the memo itself, or it is only a helper - it is called
    from other functions of the package and each of them clears the memo.  The four lists come from translate/fields.py:
    "f>m" in [clears] says f calls m.cache_clear(), "f>w" in [calls] says f calls the store writer w. *)
Local Open Scope string_scope.
Definition mem_s (f : string) (l : list string) : bool := existsb (String.eqb f) l.
Definition ends_with (suf c : string) : bool :=
  let n := String.length c in let k := String.length suf in
  Nat.leb k n && String.eqb (substring (n - k) k c) suf.
Definition caller_part (suf c : string) : string := substring 0 (String.length c - String.length suf) c.
Definition writer_keeps_fresh (clears calls : list string) (m w : string) : bool :=
  mem_s (w ++ ">" ++ m) clears
  || (let suf := ">" ++ w in
      existsb (ends_with suf) calls &&
      forallb (fun c => if ends_with suf c then mem_s (caller_part suf c ++ ">" ++ m) clears else true) calls).
Definition memo_covered (memo writers clears calls justified : list string) : bool :=
  forallb (fun m => mem_s m justified) memo &&
  forallb (fun m => forallb (writer_keeps_fresh clears calls m) writers) memo.
