(** core.py:_encode's vbar_split (C03): the argument text of a template call, argument reference or link is cut at
    every "|" -- except inside an HTML element, which the regular expression skips as a whole.  The model transcribes
    the cut for texts without "<" (no element can start); a text with "<" is outside it ([None]). *)
From WTP Require Import Base.Str.
Open Scope N_scope.

Definition bar : N := 124.
Definition lt : N := 60.

(* "(...[^|])*" : one argument, up to the next bar *)
Fixpoint take_arg (s : str) : str * option str :=
  match s with
  | [] => ([], None)
  | c :: r => if c =? bar then ([], Some r) else let (a, rest) := take_arg r in (c :: a, rest)
  end.

(* re.finditer over "|" + v: every match starts at a bar and takes the argument after it *)
Fixpoint split_from (fuel : nat) (s : str) : list str :=
  match fuel with
  | O => []
  | S f => let (a, rest) := take_arg s in a :: match rest with Some r => split_from f r | None => [] end
  end.
Definition vbar_split (v : str) : option (list str) :=
  if existsb (N.eqb lt) v then None else Some (split_from (S (length v)) v).

Fixpoint join (args : list str) : str :=
  match args with
  | [] => []
  | [a] => a
  | a :: r => a ++ bar :: join r
  end.
Definition plain (a : str) : bool := negb (existsb (fun c => (c =? bar) || (c =? lt)) a).

Fixpoint strs_eqb (a b : list str) : bool :=
  match a, b with [], [] => true | x :: a', y :: b' => str_eqb x y && strs_eqb a' b' | _, _ => false end.
