(** Decoding of the entities that nowiki_quote produces (what a browser or
    html.unescape does for exactly these entities), and the three-pattern
    single pass of preprocess_text on a segment representation. *)
From WTP Require Import Base.Str.
Open Scope N_scope.

Fixpoint strip_prefix (p s : str) : option str :=
  match p, s with
  | [], _ => Some s
  | x :: p', y :: s' => if x =? y then strip_prefix p' s' else None
  | _ :: _, [] => None
  end.

Fixpoint match_entity (m : list (N * str)) (s : str) : option (N * str) :=
  match m with
  | [] => None
  | (k, e) :: r => match strip_prefix e s with
                   | Some rest => Some (k, rest)
                   | None => match_entity r s
                   end
  end.

(* one output character per unit of fuel *)
Fixpoint unescape (fuel : nat) (m : list (N * str)) (s : str) : str :=
  match fuel with
  | O => s
  | S f => match s with
           | [] => []
           | c :: r => if c =? 38 then
                         match match_entity m s with
                         | Some (k, rest) => k :: unescape f m rest
                         | None => c :: unescape f m r
                         end
                       else c :: unescape f m r
           end
  end.

Definition quote_char (m : list (N * str)) (c : N) : str :=
  match find (fun p => fst p =? c) m with Some p => snd p | None => [c] end.
