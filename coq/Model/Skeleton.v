(** Control-flow skeleton of the functions that push/pop [Wtp.expand_stack]
    (C16).  A function body is a block of statements; [Call f] calls nested
    function number [f]; nondeterministic [If2] and [Loop] over-approximate
    data-dependent control flow.  [Abort] is a path that raises (the property
    speaks only of calls that return). *)
From Coq Require Import List ZArith Bool.
Import ListNotations.
Open Scope Z_scope.

Inductive stmt :=
| Push | Pop | Call (f : nat) | Ret | Cont | Brk | Abort
| If2 (a b : blk) | Loop (b : blk)
with blk := Nil | Cons (s : stmt) (r : blk).

Inductive kind := KNorm | KRet | KCont | KBrk.
Definition kind_eqb (a b : kind) : bool :=
  match a, b with KNorm, KNorm | KRet, KRet | KCont, KCont | KBrk, KBrk => true | _, _ => false end.

(* abstract summary: possible (exit kind, net stack change); None = cannot be bounded *)
Definition summ := list (kind * Z).

Definition seq_summ (s r : summ) : summ :=
  filter (fun o => negb (kind_eqb (fst o) KNorm)) s ++
  flat_map (fun o => if kind_eqb (fst o) KNorm
                     then map (fun o2 => (fst o2, snd o + snd o2)) r else []) s.

Definition loop_ok (b : summ) : bool :=
  forallb (fun o => match fst o with KNorm | KCont => Z.eqb (snd o) 0 | _ => true end) b.
Definition loop_summ (b : summ) : summ :=
  (KNorm, 0) :: flat_map (fun o => match fst o with
                                    | KBrk => [(KNorm, snd o)]
                                    | KRet => [(KRet, snd o)]
                                    | _ => [] end) b.

Fixpoint summ_stmt (s : stmt) : option summ :=
  match s with
  | Push => Some [(KNorm, 1)]
  | Pop => Some [(KNorm, -1)]
  | Call _ => Some [(KNorm, 0)]        (* callee assumed balanced: discharged for all functions together *)
  | Ret => Some [(KRet, 0)]
  | Cont => Some [(KCont, 0)]
  | Brk => Some [(KBrk, 0)]
  | Abort => Some []
  | If2 a b => match summ_blk a, summ_blk b with
               | Some x, Some y => Some (x ++ y)
               | _, _ => None
               end
  | Loop b => match summ_blk b with
              | Some x => if loop_ok x then Some (loop_summ x) else None
              | None => None
              end
  end
with summ_blk (b : blk) : option summ :=
  match b with
  | Nil => Some [(KNorm, 0)]
  | Cons s r => match summ_stmt s, summ_blk r with
                | Some x, Some y => Some (seq_summ x y)
                | _, _ => None
                end
  end.

(* a function is balanced if every way of leaving it (falling off the end or
   return) has net change 0 and no break/continue escapes *)
Definition fun_ok (b : blk) : bool :=
  match summ_blk b with
  | Some x => forallb (fun o => match fst o with
                                | KNorm | KRet => Z.eqb (snd o) 0
                                | _ => false end) x
  | None => false
  end.

Definition check_all (funs : list blk) : bool := forallb fun_ok funs.

(* for diagnostics: the summaries of each function *)
Definition summaries (funs : list blk) : list (option summ) := map summ_blk funs.
