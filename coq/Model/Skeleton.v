(** Control-flow skeleton of the functions that push/pop [Wtp.expand_stack]
    (C16).  A function body is a block of statements; [Call f] calls function
    number [f]; nondeterministic [If2] and [Loop] over-approximate
    data-dependent control flow.  [Abort] is a path that raises (the property
    speaks only of calls that return).  [Leak] is an external call (into the
    Lua runtime) during which callbacks may be aborted by an exception that
    the callee swallows, leaving any number of extra entries.  [Restore b] is
    the try/finally idiom "remember the length, run b, pop back down to the
    remembered length". *)
From Coq Require Import List ZArith Bool.
Import ListNotations.
Open Scope Z_scope.

Inductive stmt :=
| Push | Pop | Call (f : nat) | Ret | Cont | Brk | Abort | Leak
| If2 (a b : blk) | Loop (b : blk) | Restore (b : blk)
with blk := Nil | Cons (s : stmt) (r : blk).

Inductive kind := KNorm | KRet | KCont | KBrk.
Definition kind_eqb (a b : kind) : bool :=
  match a, b with KNorm, KNorm | KRet, KRet | KCont, KCont | KBrk, KBrk => true | _, _ => false end.

(* abstract outcome: exit kind and an interval [lo, hi] (hi = None: unbounded) for the net change *)
Record aout := mk { ak : kind; lo : Z; hi : option Z }.
Definition summ := list aout.

Definition hi_add (a b : option Z) : option Z :=
  match a, b with Some x, Some y => Some (x + y) | _, _ => None end.
Definition is_zero (o : aout) : bool :=
  Z.eqb (lo o) 0 && match hi o with Some h => Z.eqb h 0 | None => false end.

Definition seq_summ (s r : summ) : summ :=
  filter (fun o => negb (kind_eqb (ak o) KNorm)) s ++
  flat_map (fun o => if kind_eqb (ak o) KNorm
                     then map (fun o2 => mk (ak o2) (lo o + lo o2) (hi_add (hi o) (hi o2))) r else []) s.

Definition loop_ok (b : summ) : bool :=
  forallb (fun o => match ak o with KNorm | KCont => is_zero o | _ => true end) b.
Definition loop_summ (b : summ) : summ :=
  mk KNorm 0 (Some 0) :: flat_map (fun o => match ak o with
                                            | KBrk => [mk KNorm (lo o) (hi o)]
                                            | KRet => [mk KRet (lo o) (hi o)]
                                            | _ => [] end) b.
Definition restore_summ (b : summ) : summ :=
  map (fun o => mk (ak o) (Z.min (lo o) 0) (Some (match hi o with Some h => Z.min h 0 | None => 0 end))) b.

Fixpoint summ_stmt (s : stmt) : option summ :=
  match s with
  | Push => Some [mk KNorm 1 (Some 1)]
  | Pop => Some [mk KNorm (-1) (Some (-1))]
  | Call _ => Some [mk KNorm 0 (Some 0)]   (* callee assumed balanced: discharged for all functions together *)
  | Ret => Some [mk KRet 0 (Some 0)]
  | Cont => Some [mk KCont 0 (Some 0)]
  | Brk => Some [mk KBrk 0 (Some 0)]
  | Abort => Some []
  | Leak => Some [mk KNorm 0 None]
  | If2 a b => match summ_blk a, summ_blk b with
               | Some x, Some y => Some (x ++ y)
               | _, _ => None
               end
  | Loop b => match summ_blk b with
              | Some x => if loop_ok x then Some (loop_summ x) else None
              | None => None
              end
  | Restore b => match summ_blk b with
                 | Some x => Some (restore_summ x)
                 | None => None
                 end
  end
with summ_blk (b : blk) : option summ :=
  match b with
  | Nil => Some [mk KNorm 0 (Some 0)]
  | Cons s r => match summ_stmt s, summ_blk r with
                | Some x, Some y => Some (seq_summ x y)
                | _, _ => None
                end
  end.

(* a function is balanced if every way of leaving it (falling off the end or
   return) has net change exactly 0 and no break/continue escapes *)
Definition fun_ok (b : blk) : bool :=
  match summ_blk b with
  | Some x => forallb (fun o => match ak o with
                                | KNorm | KRet => is_zero o
                                | _ => false end) x
  | None => false
  end.

Definition check_all (funs : list blk) : bool := forallb fun_ok funs.

(* for diagnostics: the summaries of each function *)
Definition summaries (funs : list blk) : list (option summ) := map summ_blk funs.
