(** The open-node discipline of the parser (C01): _parser_push, _parser_pop
    with its fix-ups, _parser_merge_str_children and the handful of direct
    mutations the token handlers perform on the node on top of
    ctx.parser_stack (parser.py).  Whatever a handler decides, all it ever
    does to the tree is a sequence of these operations; which sequence is the
    handler's business and is NOT modelled here - the theorems of
    Proofs/StackProofs.v hold for every sequence.

    The open child of an open node is, in parser.py, already the last element
    of its parent's children; nothing is appended to the parent before the
    child is closed (every append goes to the top of the stack), so the model
    adds the closed node to the parent when it is popped and simply forgets an
    un-pushed one.  No proofs in this file. *)
From Coq Require Import List Bool NArith.
Import ListNotations.
From WTP Require Import Model.Tree.

Definition text := list N.

Inductive node :=
  Nd (k : kind) (largs : list (list item)) (children : list item) (head defn : option (list item))
with item := IStr (s : text) | INode (n : node).

Definition node_kind (n : node) : kind := match n with Nd k _ _ _ _ => k end.

(* an open node: kind, arguments closed so far, children so far (oldest first), temp_head *)
Record frame := mkframe { f_kind : kind; f_largs : list (list item); f_children : list item; f_head : option (list item) }.
Definition stack := list frame.          (* top of the parser stack first *)

Definition is_nil {A} (l : list A) : bool := match l with [] => true | _ => false end.
Definition args_kinds := have_args.                                   (* HAVE_ARGS_KIND_FLAGS *)
Definition largs_kinds := have_args ++ levels.                        (* kinds whose children are ever moved to largs *)

Inductive op :=
| OPush (k : kind)                     (* _parser_push *)
| OPop (warn semi tofn : bool)         (* _parser_pop(warn_unclosed); semi: sarg ends with ';'; tofn: the template's
                                          name is a parser function (kind becomes PARSER_FN) *)
| OMerge                               (* _parser_merge_str_children called by a handler *)
| OText (s : text)                     (* node.children.append(token) *)
| OTrail (s : text)                    (* link trail: appended to the childless LINK that is the last child *)
| OToLargs (tofn : bool)               (* merge; largs.append(children); children = [] (vbar_fn, colon_fn, text_fn in URL, subtitle_end_fn) *)
| OToHead                              (* merge; temp_head = children; children = [] (list_fn, "; term : definition") *)
| OClear                               (* children = [] after they were read as an attribute string (table handlers) *)
| OUnpush.                             (* childless URL node taken back: stack.pop(); parent.children.pop() *)

Section Machine.
  Variable fin : text -> text.           (* Wtp._finalize_expand on a joined run of strings *)
  Variable magic : N -> bool.            (* the internal placeholder range *)

  Definition flush (acc : option text) : list item :=
    match acc with
    | Some s => match fin s with [] => [] | s' => [IStr s'] end
    | None => []
    end.
  Fixpoint merge (l : list item) (acc : option text) : list item :=
    match l with
    | [] => flush acc
    | IStr s :: r => merge r (Some (match acc with Some a => a ++ s | None => s end))
    | INode n :: r => flush acc ++ INode n :: merge r None
    end.
  Definition merged (l : list item) : list item := merge l None.

  Definition clean (s : text) : bool := negb (is_nil s) && negb (existsb magic s).

  Definition set_children (f : frame) (ch : list item) : frame := mkframe (f_kind f) (f_largs f) ch (f_head f).

  (* what _parser_pop leaves in the parent for a node that is kept *)
  Definition close_frame (f : frame) (semi tofn : bool) : node :=
    let ch := merged (f_children f) in
    let k := f_kind f in
    let largs := if is_kind args_kinds k then f_largs f ++ [ch] else f_largs f in
    let ch1 := if is_kind args_kinds k then [] else ch in
    let k1 := if tofn then PARSER_FN else k in
    match f_head f with
    | Some (h0 :: h) => if kind_eqb k LIST_ITEM && semi then Nd k1 largs (h0 :: h) None (Some ch1)
                        else Nd k1 largs ch1 (f_head f) None
    | _ => Nd k1 largs ch1 (f_head f) None
    end.

  Definition trail (l : list item) (s : text) : option (list item) :=
    match rev l with
    | INode (Nd LINK largs [] h d) :: before => Some (rev before ++ [INode (Nd LINK largs [IStr s] h d)])
    | _ => None
    end.

  (** One operation; None = an operation the real primitives cannot perform
      in that state (popping the root, pushing a second root, ...). *)
  Definition step (st : stack) (o : op) : option stack :=
    match o, st with
    | OPush k, f :: r =>
        if kind_eqb k ROOT then None
        else Some (mkframe k [] [] None :: set_children f (merged (f_children f)) :: r)
    | OPop warn semi tofn, f :: p :: r =>
        let k := f_kind f in
        if ((warn && kind_eqb k URL) || is_kind [BOLD; ITALIC] k) && is_nil (merged (f_children f))
        then Some (p :: r)                                       (* removed from its parent again *)
        else if tofn && negb (kind_eqb k TEMPLATE) then None
        else Some (set_children p (f_children p ++ [INode (close_frame f semi tofn)]) :: r)
    | OMerge, f :: r => Some (set_children f (merged (f_children f)) :: r)
    | OText s, f :: r => Some (set_children f (f_children f ++ [IStr s]) :: r)
    | OTrail s, f :: r =>
        if clean s then
          match trail (f_children f) s with
          | Some ch => Some (set_children f ch :: r)
          | None => None
          end
        else None
    | OToLargs tofn, f :: r =>
        let k := f_kind f in
        if negb (is_kind largs_kinds k) || (tofn && negb (kind_eqb k TEMPLATE)) then None
        else Some (mkframe (if tofn then PARSER_FN else k) (f_largs f ++ [merged (f_children f)]) [] (f_head f) :: r)
    | OToHead, f :: r =>
        if kind_eqb (f_kind f) LIST_ITEM
        then Some (mkframe (f_kind f) (f_largs f) [] (Some (merged (f_children f))) :: r)
        else None
    | OClear, f :: r => Some (set_children f [] :: r)
    | OUnpush, f :: p :: r =>
        if kind_eqb (f_kind f) URL && is_nil (f_children f) then Some (p :: r) else None
    | _, _ => None
    end.

  Fixpoint run (st : stack) (ops : list op) : option stack :=
    match ops with
    | [] => Some st
    | o :: r => match step st o with Some st' => run st' r | None => None end
    end.

  (* parse_encoded: ctx.parser_stack = [ROOT node with largs [[title]]] *)
  Definition init (title : text) : stack := [mkframe ROOT [[IStr title]] [] None].

  (* ... and its end: when only the root is open, its children are merged and it is returned *)
  Definition result (st : stack) : option node :=
    match st with
    | [f] => Some (Nd (f_kind f) (f_largs f) (merged (f_children f)) (f_head f) None)
    | _ => None
    end.

  (** The closing loop of parse_encoded: "while the top is not ROOT:
      _parser_pop(ctx, True)".  The two flags of each pop come from fields
      outside the model (sarg, the template name), so they are arbitrary
      here; a childless URL that is taken back is followed by text_fn("["),
      which appends the bracket to the new top. *)
  Definition lbracket : text := [91%N].
  Fixpoint finale (flags : list (bool * bool)) (st : stack) : option stack :=
    match st with
    | [] => None
    | [f] => Some st
    | f :: _ :: _ =>
      match flags with
      | [] => None
      | (semi, tofn) :: fl =>
        let tofn' := tofn && kind_eqb (f_kind f) TEMPLATE in
        match step st (OPop true semi tofn') with
        | None => None
        | Some st' =>
          if kind_eqb (f_kind f) URL && is_nil (merged (f_children f))
          then match step st' (OText lbracket) with Some st'' => finale fl st'' | None => None end
          else finale fl st'
        end
      end
    end.
End Machine.

(** Where list and table nodes may be put.  Unlike the clauses above this is
    a matter of which operations the handlers choose: the primitives would push
    any kind anywhere.  [guard] is what the handlers are expected to respect -
    a node is only pushed onto a permitted parent and no text is appended to a
    LIST node - and [run_guarded] only follows operation sequences that do;
    Proofs/StackPlacedProofs.v shows that such sequences keep the list and
    table clauses of well-formedness, and the replay of recorded runs checks
    that the real handlers' sequences are guarded. *)
Definition placed_ok (parent k : kind) : bool :=
  (negb (kind_eqb k LIST_ITEM) || kind_eqb parent LIST) &&
  (negb (kind_eqb parent LIST) || kind_eqb k LIST_ITEM) &&
  (negb (is_kind [TABLE_ROW; TABLE_CAPTION] k) || kind_eqb parent TABLE) &&
  (negb (is_kind [TABLE_CELL; TABLE_HEADER_CELL] k) || kind_eqb parent TABLE_ROW).

Definition guard (st : stack) (o : op) : bool :=
  match o, st with
  | OPush k, f :: _ => placed_ok (f_kind f) k
  | OText _, f :: _ => negb (kind_eqb (f_kind f) LIST)
  | _, _ => true
  end.

Section Guarded.
  Variable fin : text -> text.
  Variable magic : N -> bool.
  Fixpoint run_guarded (st : stack) (ops : list op) : option stack :=
    match ops with
    | [] => Some st
    | o :: r => if guard st o then match step fin magic st o with Some st' => run_guarded st' r | None => None end else None
    end.
End Guarded.

(** Replaying a recorded run of the real parser (harness/stacktrace.py): the
    operations it performed are run on the model and the result is compared
    with the tree parse_encoded() returned.  [_finalize_expand] substitutes
    character by character, so it is given as the table of the placeholder
    characters that occur, each with its fully expanded text. *)
Fixpoint text_eqb (a b : text) : bool :=
  match a, b with
  | [], [] => true
  | x :: a', y :: b' => N.eqb x y && text_eqb a' b'
  | _, _ => false
  end.

Fixpoint node_eqb (a b : node) {struct a} : bool :=
  match a, b with
  | Nd k1 l1 c1 h1 d1, Nd k2 l2 c2 h2 d2 =>
    let items_eqb := fix ie (x y : list item) {struct x} : bool :=
      match x, y with
      | [], [] => true
      | IStr s :: x', IStr t :: y' => text_eqb s t && ie x' y'
      | INode n :: x', INode m :: y' => node_eqb n m && ie x' y'
      | _, _ => false
      end in
    let lists_eqb := fix le (x y : list (list item)) {struct x} : bool :=
      match x, y with
      | [], [] => true
      | p :: x', q :: y' => items_eqb p q && le x' y'
      | _, _ => false
      end in
    let opt_eqb := fun (x y : option (list item)) =>
      match x, y with
      | None, None => true
      | Some p, Some q => items_eqb p q
      | _, _ => false
      end in
    kind_eqb k1 k2 && lists_eqb l1 l2 && items_eqb c1 c2 && opt_eqb h1 h2 && opt_eqb d1 d2
  end.

Definition fin_of (table : list (N * text)) (s : text) : text :=
  flat_map (fun c => match find (fun p => N.eqb (fst p) c) table with Some p => snd p | None => [c] end) s.
Definition magic_range (c : N) : bool := N.leb 1056829 c.        (* 0x10203D, first character of the placeholder ranges *)

(* 0 = the replay gives the returned tree; 1 = an operation the model cannot perform in that state;
   2 = the operations do not end with only the root open; 3 = a different tree; 4 = an operation that puts a list or
   table node where it must not be (or text into a LIST) *)
Definition check_trace (table : list (N * text)) (title : text) (ops : list op) (returned : node) : nat :=
  match run (fin_of table) magic_range (init title) ops with
  | None => 1
  | Some st =>
    match result (fin_of table) st with
    | None => 2
    | Some t => if node_eqb t returned
                then match run_guarded (fin_of table) magic_range (init title) ops with Some _ => 0 | None => 4 end
                else 3
    end
  end.
