(** Worker contexts opening the same database file concurrently (C20): the
    start-up steps of create_db as each worker performs them, interleaved by an
    arbitrary schedule.  Shared state: the files; per worker: a program counter,
    whether it saw a backup, and whether it failed. *)
From Coq Require Import List Bool Arith.
Import ListNotations.

Inductive file := Missing | Holds (version : nat).          (* content version of a database file *)
Record shared := mksh { dbf : file; bakf : file; bootstrap_page : bool }.

Inductive pc := PCheck | PUnlink | PRename | PConnect | PBootstrap | PDone | PFailed.
Record worker := mkw { wpc : pc; saw_backup : bool; sees : option nat (* content version it reads *) }.

Definition start_worker : worker := mkw PCheck false None.

(* one step of a worker; create_db: exists(backup)? unlink db; rename backup -> db; connect (CREATE TABLE IF NOT EXISTS is
   idempotent); first Lua use: add the sandbox bootstrap page if absent (idempotent upsert) *)
Definition wstep (sh : shared) (w : worker) : shared * worker :=
  match wpc w with
  | PCheck => (sh, mkw (match bakf sh with Missing => PConnect | Holds _ => PUnlink end)
                       (match bakf sh with Missing => false | Holds _ => true end) None)
  | PUnlink => (mksh Missing (bakf sh) (bootstrap_page sh), mkw PRename true None)
  | PRename => match bakf sh with
               | Holds v => (mksh (Holds v) Missing (bootstrap_page sh), mkw PConnect true None)
               | Missing => (sh, mkw PFailed true None)            (* FileNotFoundError *)
               end
  | PConnect => match dbf sh with
                | Holds v => (sh, mkw PBootstrap (saw_backup w) (Some v))
                | Missing => (mksh (Holds 0) (bakf sh) false, mkw PBootstrap (saw_backup w) (Some 0))   (* sqlite creates an empty database *)
                end
  | PBootstrap => (mksh (dbf sh) (bakf sh) true, mkw PDone (saw_backup w) (sees w))
  | PDone | PFailed => (sh, w)
  end.

Fixpoint upd {A} (l : list A) (i : nat) (x : A) : list A :=
  match l, i with
  | [], _ => []
  | _ :: r, O => x :: r
  | y :: r, S j => y :: upd r j x
  end.

(* a schedule is a list of worker indices; an index out of range is a no-op *)
Fixpoint run_schedule (sh : shared) (ws : list worker) (sched : list nat) : shared * list worker :=
  match sched with
  | [] => (sh, ws)
  | i :: r => match nth_error ws i with
              | Some w => let (sh', w') := wstep sh w in run_schedule sh' (upd ws i w') r
              | None => run_schedule sh ws r
              end
  end.

Definition failed (w : worker) : bool := match wpc w with PFailed => true | _ => false end.
Definition reads_ok (v : nat) (w : worker) : bool :=
  match sees w with Some x => Nat.eqb x v | None => true end.
