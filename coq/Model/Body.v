(** Wtp._template_to_body (core.py): the part of a template page that is
    transcluded.  Six regular-expression passes, modelled as deterministic
    scanners (none of the patterns needs backtracking: a blank-run is always
    followed by a non-blank literal, and the optional groups start with a slash):
      1. closed comments are removed (shortest match);
      2. closed noinclude elements are removed (shortest match, tags may carry blanks, any case);
      3. an unclosed noinclude start tag removes the rest of the text;
      4. an unclosed comment opener removes the rest of the text;
      5. if there is any onlyinclude element (or self-closed onlyinclude tag), only their contents are kept;
      6. includeonly start/end tags (blanks and slashes as the pattern allows) are removed.
    Case-insensitivity is modelled for ASCII letters (the generators do not
    produce the few non-ASCII letters the regex engine treats as case variants). *)
From Coq Require Import List NArith Bool Arith.
From WTP Require Import Base.Str.
Import ListNotations.
Open Scope N_scope.

Inductive pel := PC (c : N) | PWS | POpt (c : N).     (* POpt c = optional (c followed by blanks) *)
Fixpoint skip_ws (s : str) : str := match s with c :: r => if is_space c then skip_ws r else s | [] => [] end.
Fixpoint match_pat (p : list pel) (s : str) : option str :=
  match p with
  | [] => Some s
  | PC c :: p' => match s with x :: r => if lower_c x =? c then match_pat p' r else None | [] => None end
  | PWS :: p' => match_pat p' (skip_ws s)
  | POpt c :: p' =>
    match s with
    | x :: r => if x =? c then match_pat p' (skip_ws r) else match_pat p' s
    | [] => match_pat p' s
    end
  end.
Definition lit (s : str) : list pel := map PC s.

(* first position at which the pattern matches: (text before, text after the match) *)
Fixpoint cut_pat (p : list pel) (s : str) : option (str * str) :=
  match match_pat p s with
  | Some after => Some ([], after)
  | None => match s with
            | [] => None
            | c :: r => match cut_pat p r with Some (a, b) => Some (c :: a, b) | None => None end
            end
  end.

(* re.sub(pattern, "", s) for a matcher that says where a match starting here ends;
   [skip] characters of an earlier match are still to be dropped *)
Fixpoint scan (m : str -> option str) (skip : nat) (s : str) : str :=
  match s with
  | [] => []
  | c :: r =>
    match skip with
    | S k => scan m k r
    | O => match m s with
           | Some after => scan m (length r - length after) r
           | None => c :: scan m O r
           end
    end
  end.

Definition between (op cl : list pel) (s : str) : option str :=
  match match_pat op s with
  | Some r => match cut_pat cl r with Some (_, after) => Some after | None => None end
  | None => None
  end.
Definition truncate_at (p : list pel) (s : str) : str :=
  match cut_pat p s with Some (before, _) => before | None => s end.

(* "<!--" "-->" "<noinclude" ... as code points *)
Definition s_copen : str := [60; 33; 45; 45].
Definition s_cclose : str := [45; 45; 62].
Definition s_noinclude : str := [110; 111; 105; 110; 99; 108; 117; 100; 101].
Definition s_onlyinclude : str := [111; 110; 108; 121; 105; 110; 99; 108; 117; 100; 101].
Definition s_includeonly : str := [105; 110; 99; 108; 117; 100; 101; 111; 110; 108; 121].
Definition p_open (name : str) : list pel := PC 60 :: lit name ++ [PWS; PC 62].
Definition p_close (name : str) : list pel := PC 60 :: PC 47 :: lit name ++ [PWS; PC 62].
Definition p_selfclose (name : str) : list pel := PC 60 :: lit name ++ [PWS; PC 47; PC 62].
Definition p_includeonly : list pel := [PC 60; PWS; POpt 47] ++ lit s_includeonly ++ [PWS; POpt 47; PC 62].

(* pass 5: the groups of all matches, left to right; None when there is no match at all *)
Definition only_here (s : str) : option (str * str) :=     (* (group, after) *)
  match match_pat (p_open s_onlyinclude) s with
  | Some r => match cut_pat (p_close s_onlyinclude) r with
              | Some (g, after) => Some (g, after)
              | None => None
              end
  | None => match match_pat (p_selfclose s_onlyinclude) s with
            | Some after => Some ([], after)
            | None => None
            end
  end.
Fixpoint onlys (skip : nat) (s : str) : list str :=
  match s with
  | [] => []
  | c :: r =>
    match skip with
    | S k => onlys k r
    | O => match only_here s with
           | Some (g, after) => g :: onlys (length r - length after) r
           | None => onlys O r
           end
    end
  end.

Definition template_to_body (text : str) : str :=
  let t1 := scan (between (lit s_copen) (lit s_cclose)) 0 text in
  let t2 := scan (between (p_open s_noinclude) (p_close s_noinclude)) 0 t1 in
  let t3 := truncate_at (p_open s_noinclude) t2 in
  let t4 := truncate_at (lit s_copen) t3 in
  let t5 := match onlys 0 t4 with [] => t4 | gs => concat gs end in
  scan (match_pat p_includeonly) 0 t5.
