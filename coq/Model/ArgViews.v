(** The three views of a template call's argument list (C14):
    - [view_parser]   : TemplateNode.template_parameters (parser.py) on plain-text arguments
    - [view_expander] : the [ht] map built by Wtp.expand (core.py), i.e. what template_fn receives
    - [view_lua]      : make_frame (luaexec.py) + frame_args_index (_sandbox_phase2.lua)
    Each view is an association list in argument order (later entries win).
    Arguments are plain text, so expansion/preprocessing of a value is the identity. *)
From WTP Require Import Base.Str.
Open Scope N_scope.

Inductive key := KInt (n : N) | KStr (s : str).

Definition eqc : N := 61.   (* '=' *)

(* s.index("=") split: text before / after the first '=' *)
Fixpoint split_eq (s : str) : option (str * str) :=
  match s with
  | [] => None
  | c :: r => if c =? eqc then Some ([], r)
              else match split_eq r with
                   | Some (a, b) => Some (c :: a, b)
                   | None => None
                   end
  end.

Definition null (s : str) : bool := match s with [] => true | _ => false end.
Definition all_digits (s : str) : bool := negb (null s) && forallb is_digit s.
Fixpoint to_num_acc (s : str) (acc : N) : N :=
  match s with [] => acc | c :: r => to_num_acc r (10 * acc + (c - 48)) end.
Definition to_num (s : str) : N := to_num_acc s 0.
Definition positive_number (s : str) : bool := all_digits s && (0 <? to_num s).

(* whitespace classes: Python (str.strip and regex \s on str) vs Lua %s *)
Definition sp_py (c : N) : bool := is_space c.
Definition sp_lua (c : N) : bool := (c =? 32) || ((9 <=? c) && (c <=? 13)).

Section Strip.
  Variable sp : N -> bool.
  Fixpoint lstrip_by (s : str) : str :=
    match s with c :: r => if sp c then lstrip_by r else s | [] => [] end.
  Definition rstrip_by (s : str) : str := rev (lstrip_by (rev s)).
  Definition strip_by (s : str) : str := rstrip_by (lstrip_by s).
End Strip.

(* re.sub(r"\s+", " ", k).strip() *)
Fixpoint collapse_ws (s : str) : str :=
  match s with
  | [] => []
  | c :: r => if sp_py c then
                match r with
                | c2 :: _ => if sp_py c2 then collapse_ws r else 32 :: collapse_ws r
                | [] => [32]
                end
              else c :: collapse_ws r
  end.

(* the regex  ^\s*(CLASS+?)\s*=\s*(.*?)\s*$  (DOTALL): the '=' is the first one;
   the name is the stripped text before it and must lie in CLASS *)
Definition split_named (cls : N -> bool) (s : str) : option (str * str) :=
  match split_eq s with
  | None => None
  | Some (p, rest) =>
    match p with
    | [] => None
    | _ => let name := match strip_by sp_py p with [] => [last p 0] | n => n end in
           if forallb cls name then Some (name, strip_by sp_py rest) else None
    end
  end.

Definition in_set (l : list N) (c : N) : bool := existsb (N.eqb c) l.
(* [^][&<>="]  and  [^<>="'] *)
Definition cls_expander (c : N) : bool := negb (in_set [93; 91; 38; 60; 62; 61; 34] c).
Definition cls_lua (c : N) : bool := negb (in_set [60; 62; 61; 34; 39] c).

(* token_iter splits the text of an argument into lines and skips every line
   that consists only of spaces and tabs (`if not line.strip(" \t"): continue`) *)
Definition is_sptab (c : N) : bool := (c =? 32) || (c =? 9).
Definition flush_line (cur_rev : str) : str := if forallb is_sptab cur_rev then [] else rev cur_rev.
Fixpoint tok_text_aux (s : str) (cur_rev : str) : str :=
  match s with
  | [] => flush_line cur_rev
  | c :: r => if c =? 10 then flush_line cur_rev ++ 10 :: tok_text_aux r []
              else tok_text_aux r (c :: cur_rev)
  end.
Definition tok_text (s : str) : str := tok_text_aux s [].

(** parser view (on the argument text as the tokenizer passes it on) *)
Fixpoint view_parser_tok (args : list str) (idx : N) : list (key * str) :=
  match args with
  | [] => []
  | p :: r =>
    match p with
    | [] => (KInt (idx + 1), []) :: view_parser_tok r (idx + 1)
    | _ =>
      match split_eq p with
      | None => (KInt (idx + 1), p) :: view_parser_tok r (idx + 1)
      | Some (n, v) =>
        let name := strip_by sp_py n in
        let k := if positive_number name then KInt (to_num name) else KStr name in
        match lstrip_by sp_py v with
        | [] => view_parser_tok r idx
        | _ => (k, strip_by sp_py v) :: view_parser_tok r idx
        end
      end
    end
  end.

Definition view_parser (args : list str) (idx : N) : list (key * str) :=
  view_parser_tok (map tok_text args) idx.

(** expander view *)
Fixpoint view_expander (args : list str) (num : N) : list (key * str) :=
  match args with
  | [] => []
  | a :: r =>
    match split_named cls_expander a with
    | Some (name, v) =>
      let k := if positive_number name then KInt (to_num name)
               else KStr (strip_by sp_py (collapse_ws name)) in
      (k, v) :: view_expander r num
    | None => (KInt num, a) :: view_expander r (num + 1)
    end
  end.

(** Lua view.  re.sub(r"(?si)(<\s*noinclude\s*/\s*>|\n$)", "", arg) on plain text:
    removes a final newline, and the one before it when there are two *)
Definition drop_nl_rev (r : str) : str :=
  match r with
  | c :: r' => if c =? 10 then
                 match r' with
                 | c2 :: r'' => if c2 =? 10 then r'' else r'
                 | [] => r'
                 end
               else r
  | [] => r
  end.
Definition drop_nl (s : str) : str := rev (drop_nl_rev (rev s)).

Fixpoint view_lua (args : list str) (num : N) : list (key * str) :=
  match args with
  | [] => []
  | a :: r =>
    match split_named cls_lua a with
    | Some (name, v) =>
      if positive_number name then
        let k := N.min (to_num name) 1000 in
        (KInt k, strip_by sp_lua (drop_nl v)) :: view_lua r num
      else (KStr name, strip_by sp_lua (drop_nl v)) :: view_lua r num
    | None => (KInt num, drop_nl a) :: view_lua r (num + 1)
    end
  end.

(* comparison for the correspondence check *)
Definition key_eqb (a b : key) : bool :=
  match a, b with
  | KInt x, KInt y => x =? y
  | KStr x, KStr y => str_eqb x y
  | _, _ => false
  end.
Fixpoint view_eqb (a b : list (key * str)) : bool :=
  match a, b with
  | [], [] => true
  | (k, v) :: a', (k', v') :: b' => key_eqb k k' && str_eqb v v' && view_eqb a' b'
  | _, _ => false
  end.
(* later entries win: the map as the last binding per key, in first-occurrence order *)
Fixpoint assoc_last (k : key) (l : list (key * str)) (acc : option str) : option str :=
  match l with [] => acc | (k', v) :: r => assoc_last k r (if key_eqb k k' then Some v else acc) end.
