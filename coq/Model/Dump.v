(** Dump ingestion (dumpparser.py: parse_dump_xml + add_default_templates) on
    top of the page-store model: which pages of a dump are stored, and how. *)
From Coq Require Import ZArith.
From WTP Require Import Base.Str Model.Store Model.ParserFns.
Open Scope N_scope.

Record dpage := mkdp { d_title : str; d_ns : Z; d_model : str; d_redirect : option str; d_text : str }.

Fixpoint endswith_rev (suffix_rev s_rev : str) : bool := startswith suffix_rev s_rev.
Definition endswith (suffix s : str) : bool := startswith (rev suffix) (rev s).

Definition s_documentation : str := [47;100;111;99;117;109;101;110;116;97;116;105;111;110].  (* "/documentation" *)
Definition s_testcases : str := [47;116;101;115;116;99;97;115;101;115].                        (* "/testcases" *)
Definition s_wikitext : str := [119;105;107;105;116;101;120;116].
Definition s_scribunto : str := [83;99;114;105;98;117;110;116;111].
Definition s_json : str := [106;115;111;110].

Definition model_ok (m : str) : bool := str_eqb m s_wikitext || str_eqb m s_scribunto || str_eqb m s_json.

Definition selected (nsset : list Z) (p : dpage) : bool :=
  existsb (Z.eqb (d_ns p)) nsset
  && negb (endswith s_documentation (d_title p))
  && negb (str_in s_testcases (d_title p))
  && (match d_redirect p with Some _ => true | None => model_ok (d_model p) end).

Section Ingest.
  Variable tbl : nstable.
  Variable template_ns : Z.
  Variable to_body : str -> str.
  Variable nsset : list Z.

  Definition store_page (s : store) (p : dpage) : store :=
    add_page tbl template_ns to_body s (d_title p) (d_ns p)
             (match d_redirect p with Some _ => None | None => Some (d_text p) end)
             (d_redirect p) false (d_model p).

  Definition ingest_step (s : store) (p : dpage) : store :=
    if selected nsset p then store_page s p else s.

  Definition parse_dump (dump : list dpage) : store := fold_left ingest_step dump [].

  (* add_default_templates: each helper is added only when no page answers to its title *)
  Definition add_default (s : store) (tb : str * str) : store :=
    let title := (match ns_lookup tbl template_ns with Some i => ns_name i | None => [] end) ++ [58] ++ fst tb in
    if page_exists tbl s title (Some template_ns) then s
    else add_page tbl template_ns to_body s title template_ns (Some (snd tb)) None false s_wikitext.

  Definition default_templates : list (str * str) :=
    [([33], [124]); ([61], [61]);
     ([40;40], [38;108;98;114;97;99;101;59;38;108;98;114;97;99;101;59]);
     ([41;41], [38;114;98;114;97;99;101;59;38;114;98;114;97;99;101;59])].

  Definition ingest (dump : list dpage) : store := fold_left add_default default_templates (parse_dump dump).
End Ingest.

(* comparison used by the correspondence check: same rows as a set of (title, ns, redirect, body, model) *)
Definition row_eqb (a b : row) : bool :=
  str_eqb (r_title a) (r_title b) && Z.eqb (r_ns a) (r_ns b) && opt_str_eqb (r_redirect a) (r_redirect b)
  && opt_str_eqb (r_body a) (r_body b) && str_eqb (r_model a) (r_model b).
Definition rows_sub (a b : store) : bool := forallb (fun r => existsb (row_eqb r) b) a.
Definition rows_same (a b : store) : bool := rows_sub a b && rows_sub b a && Nat.eqb (length a) (length b).
