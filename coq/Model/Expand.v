(** Model of the template expander (core.py: Wtp.expand — expand_args,
    expand_recurse, expand_parserfn — and _finalize_expand) on ENCODED text:
    a string in which every {{...}}, {{{...}}}, [[...]] and <nowiki> body has
    been replaced by a cookie that carries its |-separated arguments, exactly
    the representation [_encode] produces.  Text->encoded ([_encode],
    [preprocess_text]) is glue on the implementation side of the
    correspondence.  No proofs in this file. *)
From Coq Require Import ZArith.
From WTP Require Import Base.Str Model.ArgViews Model.ParserFns.
Open Scope N_scope.

Inductive item :=
| Ch (c : N)
| T (args : list (list item))        (* template / parser function call *)
| A (args : list (list item))        (* parameter reference *)
| L (args : list (list item))        (* [[link]] *)
| Nw (content : str)                 (* <nowiki>content</nowiki> *)
| ErrDeep.                           (* the 'too deep recursion' error element *)
Definition enc := list item.

Definition chars (s : str) : enc := map Ch s.
Definition code (i : item) : N := match i with Ch c => c | _ => 1114111 end.
Definition codes (e : enc) : str := map code e.
Definition is_ch (i : item) : bool := match i with Ch _ => true | _ => false end.
Definition is_code (c : N) (i : item) : bool := match i with Ch x => x =? c | _ => false end.
Definition sp_item (i : item) : bool := match i with Ch c => is_space c | _ => false end.

Fixpoint lstrip_i (e : enc) : enc :=
  match e with i :: r => if sp_item i then lstrip_i r else e | [] => [] end.
Definition rstrip_i (e : enc) : enc := rev (lstrip_i (rev e)).
Definition strip_i (e : enc) : enc := rstrip_i (lstrip_i e).

(* str.removesuffix('\n') *)
Definition drop_last_nl (e : enc) : enc :=
  match rev e with i :: r => if is_code 10 i then rev r else e | [] => e end.

Fixpoint join_i (sep : enc) (l : list enc) : enc :=
  match l with [] => [] | [x] => x | x :: r => x ++ sep ++ join_i sep r end.

Definition s_lbrace2 : str := [123; 123].
Definition s_rbrace2 : str := [125; 125].
Definition s_lbrace3 : str := [123; 123; 123].
Definition s_rbrace3 : str := [125; 125; 125].
Definition s_lsq2 : str := [91; 91].
Definition s_rsq2 : str := [93; 93].
Definition vbar : enc := [Ch 124].

Definition unexpanded_template (args : list enc) : enc := chars s_lbrace2 ++ join_i vbar args ++ chars s_rbrace2.
Definition unexpanded_arg (args : list enc) : enc := chars s_lbrace3 ++ join_i vbar args ++ chars s_rbrace3.
Definition unexpanded_link (args : list enc) : enc := chars s_lsq2 ++ join_i vbar args ++ chars s_rsq2.

(* add_newline_to_expansion: text starting with * ; : # or {| gets a newline prepended *)
Definition starts_block (e : enc) : bool :=
  match e with
  | Ch c :: r => (c =? 42) || (c =? 59) || (c =? 58) || (c =? 35) ||
                 ((c =? 123) && match r with i :: _ => is_code 124 i | [] => false end)
  | _ => false
  end.
Definition add_newline (e : enc) : enc := if starts_block e then Ch 10 :: e else e.

(** keys and argument maps (dict: a later binding of the same key wins) *)
Definition argmap := list (key * enc).
Fixpoint am_get (m : argmap) (k : key) : option enc :=
  match m with
  | [] => None
  | (k', v) :: r => match am_get r k with
                    | Some v' => Some v'
                    | None => if key_eqb k k' then Some v else None
                    end
  end.
Definition am_set (m : argmap) (k : key) (v : enc) : argmap := m ++ [(k, v)].

Definition show_key (k : key) : str :=
  match k with
  | KStr s => s
  | KInt n => show_Z (Z.of_N n)
  end.

(** named-argument detection on an encoded argument (the regex
    ^\s*([^][&<>=']+?)\s*=\s*(.*?)\s*$ with DOTALL; cookies are ordinary
    characters of the class) *)
Fixpoint split_eq_i (e : enc) : option (enc * enc) :=
  match e with
  | [] => None
  | i :: r => if is_code 61 i then Some ([], r)
              else match split_eq_i r with
                   | Some (a, b) => Some (i :: a, b)
                   | None => None
                   end
  end.

Definition split_named_i (e : enc) : option (enc * enc) :=
  match split_eq_i e with
  | None => None
  | Some (p, rest) =>
    match p with
    | [] => None
    | _ => let name := match strip_i p with [] => [last p (Ch 32)] | n => n end in
           if forallb (fun i => cls_expander (code i)) name then Some (name, strip_i rest) else None
    end
  end.

(* k.isdigit() and int(k) > 0, then re.sub(r'\s+', ' ', k).strip() otherwise *)
Definition key_of_text (k : str) : key :=
  if positive_number k then KInt (to_num k) else KStr (strip_by sp_py (collapse_ws k)).

(** the expansion path (expand_stack), oldest first *)
Inductive frame :=
| FTitle | FTemplateName | FFn (name : str) | FTemplate (name : str) | FArgName | FArgVal (k : key)
| FTemplateFn | FArgName2 | FArgDefval | FArgvalNoTemplate | FLink.

Definition frame_eqb (a b : frame) : bool :=
  match a, b with
  | FTitle, FTitle | FTemplateName, FTemplateName | FArgName, FArgName | FTemplateFn, FTemplateFn
  | FArgName2, FArgName2 | FArgDefval, FArgDefval | FArgvalNoTemplate, FArgvalNoTemplate | FLink, FLink => true
  | FFn x, FFn y => str_eqb x y
  | FTemplate x, FTemplate y => str_eqb x y
  | FArgVal x, FArgVal y => key_eqb x y
  | _, _ => false
  end.
Definition is_argval (f : frame) : bool := match f with FArgVal _ | FArgvalNoTemplate => true | _ => false end.  (* str.startswith "ARGVAL-" *)

Fixpoint frames_eqb (a b : list frame) : bool :=
  match a, b with
  | [], [] => true
  | x :: a', y :: b' => frame_eqb x y && frames_eqb a' b'
  | _, _ => false
  end.

Fixpoint repeat_frames (p : list frame) (n : nat) : list frame :=
  match n with O => [] | S n' => p ++ repeat_frames p n' end.

(* detect_expand_template_loop (core.py) *)
Definition loop_at (stack : list frame) (len ps i : nat) : bool :=
  if Nat.eqb ((len - i) mod ps) 0 then
    let pattern := firstn ps (skipn i stack) in
    match pattern with
    | f :: _ => if is_argval f then false
                else frames_eqb (repeat_frames pattern ((len - i) / ps)) (skipn i stack)
    | [] => false
    end
  else false.

Definition detect_loop (stack : list frame) : bool :=
  let len := length stack in
  if Nat.ltb len 2 then false else
  match rev stack with
  | lastf :: before =>
    if negb (existsb (frame_eqb lastf) before) then false
    else existsb (fun ps => existsb (fun i => loop_at stack len ps i) (seq 0 (len - ps)))
                 (seq 1 (len / 2))
  | [] => false
  end.

(** templates: stored name (without the namespace prefix), encoded body and
    the pre-expand flag.  Lookup as get_page does for the Template namespace:
    underscores are spaces, exact title first, then first letter upper-cased. *)
Record tpl := mktpl { t_name : str; t_body : enc; t_pre : bool }.
Definition find_exact (lib : list tpl) (n : str) : option tpl := find (fun t => str_eqb (t_name t) n) lib.
Definition find_tpl (lib : list tpl) (name : str) : option tpl :=
  let n := replace_c 95 32 name in
  match n with
  | [] => None
  | _ => match find_exact lib n with
         | Some t => Some t
         | None => if str_eqb (upper_first n) n then None else find_exact lib (upper_first n)
         end
  end.

(* check_template_need_expand *)
Record selection := mksel { expand_names : option (list str); not_expand_names : option (list str) }.
Definition in_names (n : str) (l : list str) : bool := existsb (str_eqb n) l.
Definition need_expand (lib : list tpl) (sel : selection) (name : str) : bool :=
  match find_tpl lib name with
  | None => false
  | Some t =>
    match expand_names sel, not_expand_names sel with
    | None, Some ne => negb (in_names name ne) && t_pre t
    | Some e, None => in_names name e || t_pre t
    | Some e, Some ne => negb (in_names name ne) && (in_names name e || t_pre t)
    | None, None => t_pre t
    end
  end.

(* _canonicalize_parserfn_name: [\s_]+ -> ' ', lower-cased unless a known name *)
Fixpoint collapse_ws_us (s : str) : str :=
  match s with
  | [] => []
  | c :: r => if is_space c || (c =? 95) then
                match r with
                | c2 :: _ => if is_space c2 || (c2 =? 95) then collapse_ws_us r else 32 :: collapse_ws_us r
                | [] => [32]
                end
              else c :: collapse_ws_us r
  end.

Inductive pf := PfIf | PfIfeq | PfSwitch | PfOther | PfNone.
Definition s_if : str := [35; 105; 102].
Definition s_ifeq : str := [35; 105; 102; 101; 113].
Definition s_switch : str := [35; 115; 119; 105; 116; 99; 104].
Definition s_default : str := [35; 100; 101; 102; 97; 117; 108; 116].

Fixpoint index_of (c : N) (s : str) (i : nat) : option nat :=
  match s with [] => None | x :: r => if x =? c then Some i else index_of c r (S i) end.

Definition tpl_loop_msg (name : str) : str :=
  (* <strong class='error'>Template loop detected: [[:Template:NAME]]</strong> *)
  [60;115;116;114;111;110;103;32;99;108;97;115;115;61;34;101;114;114;111;114;34;62;84;101;109;112;108;97;116;101;32;108;111;111;112;32;100;101;116;101;99;116;101;100;58;32;91;91;58;84;101;109;112;108;97;116;101;58]
  ++ name ++ [93;93;60;47;115;116;114;111;110;103;62].
Definition missing_tpl (name : str) : str :=
  [91;91;58;84;101;109;112;108;97;116;101;58] ++ name ++ [93;93].

Fixpoint map_opt {A B} (f : A -> option B) (l : list A) : option (list B) :=
  match l with
  | [] => Some []
  | x :: r => match f x, map_opt f r with
              | Some y, Some r' => Some (y :: r')
              | _, _ => None
              end
  end.

Record options := mkopts {
  o_parserfns : bool;          (* expand_parserfns *)
  o_sel : selection;
  o_pre_propagates : bool;     (* need_pre_expand forces expand_all in the body (false for en/wiktionary) *)
  o_tfn : list (str * str);    (* template_fn: names for which the hook returns a string (None otherwise) *)
  o_pfn : list (str * str)     (* post_template_fn: names for which the hook returns a replacement *)
}.
Definition hook_ret (tbl : list (str * str)) (name : str) : option str :=
  match find (fun p => str_eqb (fst p) name) tbl with Some p => Some (snd p) | None => None end.

Section Expander.
  Variable pfnames : list str.       (* keys of PARSER_FUNCTIONS (Gen.GenData.parser_functions) *)
  Variable lib : list tpl.
  Variable opts : options.

  Definition canon_pf (name : str) : str :=
    let n := collapse_ws_us name in
    if in_names n pfnames then n else lower n.
  Definition classify_pf (fn : str) : pf :=
    if str_eqb fn s_if then PfIf else if str_eqb fn s_ifeq then PfIfeq
    else if str_eqb fn s_switch then PfSwitch
    else if in_names fn pfnames || startswith [35] fn then PfOther else PfNone.

  (* #switch argument: split at the first '=' provided no '<' precedes it *)
  Fixpoint split_switch (e : enc) : option (enc * enc) :=
    match e with
    | [] => None
    | i :: r => if is_code 61 i then Some ([], r)
                else if is_code 60 i then None
                else match split_switch r with
                     | Some (a, b) => Some (i :: a, b)
                     | None => None
                     end
    end.

  (** Mutually recursive on fuel; None = fuel exhausted or a construct outside
      the model (other parser functions, names with ':'). *)
  Fixpoint expand_args (fuel : nat) (stk : list frame) (am : argmap) (e : enc) {struct fuel} : option enc :=
    match fuel with
    | O => None
    | S f =>
      match e with
      | [] => Some []
      | i :: rest =>
        match expand_args f stk am rest with
        | None => None
        | Some rest' =>
          match i with
          | Ch _ | Nw _ | ErrDeep => Some (i :: rest')
          | T args =>
            match map_opt (fun x => option_map drop_last_nl (expand_args f stk am x)) args with
            | Some args' => Some (T args' :: rest')
            | None => None
            end
          | L args =>
            match map_opt (expand_args f stk am) args with
            | Some args' => Some (unexpanded_link args' ++ rest')
            | None => None
            end
          | A args =>
            match args with
            | [] => None
            | a0 :: more =>
              match expand_args f (stk ++ [FArgName2]) am a0 with
              | None => None
              | Some a0' =>
                match expand_recurse f (stk ++ [FArgName2]) true a0' with
                | None => None
                | Some kx =>
                  let k := key_of_text (codes (strip_i kx)) in
                  match am_get am k with
                  | Some v => Some (drop_last_nl v ++ rest')
                  | None =>
                    match more with
                    | d :: _ => match expand_args f (stk ++ [FArgDefval]) am d with
                                | Some d' => Some (d' ++ rest')
                                | None => None
                                end
                    | [] => Some (unexpanded_arg [chars (show_key k)] ++ rest')
                    end
                  end
                end
              end
            end
          end
        end
      end
    end

  with expand_recurse (fuel : nat) (stk : list frame) (expand_all : bool) (e : enc) {struct fuel} : option enc :=
    match fuel with
    | O => None
    | S f =>
      match e with
      | [] => Some []
      | i :: rest =>
        match expand_recurse f stk expand_all rest with
        | None => None
        | Some rest' =>
          match i with
          | Ch _ | Nw _ | ErrDeep => Some (i :: rest')
          | A args =>
            match expand_args f (stk ++ [FArgvalNoTemplate]) [] [A args] with
            | Some t => Some (t ++ rest')
            | None => None
            end
          | L args =>
            match map_opt (expand_recurse f (stk ++ [FLink]) expand_all) args with
            | Some args' => Some (unexpanded_link args' ++ rest')
            | None => None
            end
          | T args =>
            match expand_T f stk expand_all args with
            | Some t => Some (t ++ rest')
            | None => None
            end
          end
        end
      end
    end

  with expand_T (fuel : nat) (stk : list frame) (expand_all : bool) (args : list enc) {struct fuel} : option enc :=
    match fuel with
    | O => None
    | S f =>
      if Nat.leb 100 (length stk) then Some [ErrDeep] else
      match args with
      | [] => None
      | a0 :: more =>
        match expand_recurse f (stk ++ [FTemplateName]) expand_all a0 with
        | None => None
        | Some tn =>
          let tname := strip_i tn in
          let tcodes := codes tname in
          (* name:arg form of a parser function *)
          let colon_form :=
            match index_of 58 tcodes 0 with
            | Some (S ofs') =>
              let ofs := S ofs' in
              let fn := canon_pf (firstn ofs tcodes) in
              match classify_pf fn with
              | PfNone => None
              | c => Some (c, fn, lstrip_i (skipn (S ofs) tname) :: more)
              end
            | _ => None
            end in
          match colon_form with
          | Some (c, fn, pargs) => expand_pf f (stk ++ [FFn fn]) c fn pargs
          | None =>
            let fn := canon_pf tcodes in
            let bare := match classify_pf fn with
                        | PfNone => false
                        | _ => (in_names fn pfnames && Nat.eqb (length args) 1) || startswith [35] fn
                        end in
            if bare then expand_pf f stk (classify_pf fn) fn more
            else if existsb (N.eqb 58) tcodes then None        (* {{:ns:title}} forms: outside the model *)
            else
              let name := tcodes in
              if negb expand_all && negb (need_expand lib (o_sel opts) name) then
                match map_opt (expand_recurse f stk expand_all) args with
                | Some args' => Some (unexpanded_template args')
                | None => None
                end
              else
                let stk1 := stk ++ [FTemplate name] in
                if detect_loop stk1 then Some (chars (tpl_loop_msg name))
                else
                  match build_args f stk1 more 1 [] with
                  | None => None
                  | Some ht =>
                    let post := fun (t : enc) =>
                      let t1 := add_newline t in
                      match t1 with
                      | [] => t1
                      | _ => match hook_ret (o_pfn opts) name with
                             | Some r => chars r
                             | None => t1
                             end
                      end in
                    match hook_ret (o_tfn opts) name with
                    | Some r => Some (post (chars r))
                    | None =>
                    match find_tpl lib name with
                    | None => Some (post (chars (missing_tpl name)))
                    | Some t =>
                      let body := match t_body t with
                                  | Ch c :: _ => if (c =? 35) || (c =? 42) || (c =? 59) || (c =? 58)
                                                 then Ch 10 :: t_body t else t_body t
                                  | _ => t_body t
                                  end in
                      match expand_args f stk1 ht body with
                      | None => None
                      | Some sub =>
                        match expand_recurse f stk1 (expand_all || (t_pre t && o_pre_propagates opts)) sub with
                        | Some out => Some (post out)
                        | None => None
                        end
                      end
                    end
                    end
                  end
          end
        end
      end
    end

  (* the argument dictionary of a template call *)
  with build_args (fuel : nat) (stk : list frame) (args : list enc) (num : N) (ht : argmap) {struct fuel}
    : option argmap :=
    match fuel with
    | O => None
    | S f =>
      match args with
      | [] => Some ht
      | a :: rest =>
        match split_named_i a with
        | Some (kname, v) =>
          let kc := codes kname in
          let kopt := if positive_number kc then Some (KInt (to_num kc))
                      else match expand_recurse f (stk ++ [FArgName]) true kname with
                           | Some kx => Some (KStr (strip_by sp_py (collapse_ws (codes kx))))
                           | None => None
                           end in
          match kopt with
          | None => None
          | Some k =>
            match expand_recurse f (stk ++ [FArgVal k]) true v with
            | Some v' => build_args f stk rest num (am_set ht k (strip_i v'))
            | None => None
            end
          end
        | None =>
          match expand_recurse f (stk ++ [FArgVal (KInt num)]) true a with
          | Some v' => build_args f stk rest (num + 1) (am_set ht (KInt num) v')
          | None => None
          end
        end
      end
    end

  (* expand_parserfn + call_parser_function for #if / #ifeq / #switch; [stk] already
     holds the frame pushed by the caller (colon form) *)
  with expand_pf (fuel : nat) (stk : list frame) (c : pf) (fn : str) (args : list enc) {struct fuel} : option enc :=
    match fuel with
    | O => None
    | S f =>
      if negb (o_parserfns opts) then
        Some (match args with
              | [] => chars s_lbrace2 ++ chars fn ++ chars s_rbrace2
              | _ => chars s_lbrace2 ++ chars fn ++ [Ch 58] ++ join_i vbar args ++ chars s_rbrace2
              end)
      else
        let stk1 := stk ++ [FFn fn] in
        let ex := fun a => option_map strip_i (expand_recurse f stk1 true a) in
        let argn := fun n => nth n args [] in
        match c with
        | PfIf =>
          match ex (argn 0%nat) with
          | None => None
          | Some v => option_map add_newline (match v with [] => ex (argn 2%nat) | _ => ex (argn 1%nat) end)
          end
        | PfIfeq =>
          match ex (argn 0%nat), ex (argn 1%nat) with
          | Some x, Some y =>
            option_map add_newline (if mw_equal (codes x) (codes y) && forallb is_ch x && forallb is_ch y
                                    then ex (argn 2%nat) else
                                    if str_eqb (codes x) (codes y) then None else ex (argn 3%nat))
          | _, _ => None
          end
        | PfSwitch =>
          match args with
          | [] => Some []
          | a0 :: cases =>
            match ex a0 with
            | None => None
            | Some val => option_map add_newline (switch_loop f stk1 val cases false false None None)
            end
          end
        | _ => None
        end
    end

  with switch_loop (fuel : nat) (stk : list frame) (val : enc) (cases : list enc)
                   (match_next next_default : bool) (defval : option enc) (lastv : option enc) {struct fuel}
    : option enc :=
    match fuel with
    | O => None
    | S f =>
      let ex := fun a => option_map strip_i (expand_recurse f stk true a) in
      let same := fun (x y : enc) => mw_equal (codes x) (codes y) in
      match cases with
      | [] => match lastv with
              | Some l => Some l            (* a final item without "=" is the default, whatever "#default=" said *)
              | None => match defval with
                        | Some d => ex d
                        | None => Some []
                        end
              end
      | a :: rest =>
        match split_switch a with
        | None =>
          match ex a with
          | None => None
          | Some l =>
            switch_loop f stk val rest (match_next || same l val)
                        (next_default || str_eqb (lower (codes l)) s_default) defval (Some l)
          end
        | Some (k, v) =>
          let defval1 := if next_default && negb (match v with [] => true | _ => false end) then Some v else defval in
          let next_default1 := if next_default && negb (match v with [] => true | _ => false end) then false else next_default in
          match ex k with
          | None => None
          | Some k' =>
            if same k' val || match_next then ex v
            else switch_loop f stk val rest match_next next_default1
                             (if str_eqb (lower (codes k')) s_default then Some v else defval1) None
          end
        end
      end
    end.
End Expander.

(** _finalize_expand: every remaining cookie is written out as source text;
    nowiki bodies are entity-quoted with the (regenerated) _nowiki_map. *)
Definition nowiki_quote (nwmap : list (N * str)) (s : str) : str :=
  flat_map (fun c => match find (fun p => fst p =? c) nwmap with
                     | Some p => snd p
                     | None => [c]
                     end) s.
Definition s_nowiki_empty : str := [60;110;111;119;105;107;105;47;62].   (* <nowiki/> *)
Definition err_deep_marker : str := [0; 68; 69; 69; 80; 0].

Fixpoint finalize (fuel : nat) (nwmap : list (N * str)) (e : enc) : str :=
  match fuel with
  | O => []
  | S f =>
    flat_map (fun i =>
      match i with
      | Ch c => [c]
      | T args => s_lbrace2 ++ join [124] (map (finalize f nwmap) args) ++ s_rbrace2
      | A args => s_lbrace3 ++ join [124] (map (finalize f nwmap) args) ++ s_rbrace3
      | L args => s_lsq2 ++ join [124] (map (finalize f nwmap) args) ++ s_rsq2
      | Nw c => match c with [] => s_nowiki_empty | _ => nowiki_quote nwmap c end
      | ErrDeep => err_deep_marker
      end) e
  end.

(* Wtp.expand on an already encoded page: expand_recurse with expand_all = not pre_expand, then finalize *)
Definition expand_page (pfnames : list str) (nwmap : list (N * str)) (lib : list tpl) (opts : options)
           (pre_expand : bool) (fuel : nat) (page : enc) : option str :=
  match expand_recurse pfnames lib opts fuel [FTitle] (negb pre_expand) page with
  | Some out => Some (finalize fuel nwmap out)
  | None => None
  end.
