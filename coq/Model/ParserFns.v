(** Models of the string parser functions, plural, formatnum and a reference
    evaluator for integer #expr expressions (C18).  Arguments are the already
    expanded argument strings. *)
From Coq Require Import ZArith.
From WTP Require Import Base.Str.
Open Scope N_scope.

(** * padleft / padright (parserfns.py padleft_fn / padright_fn after the cnt parse) *)
Fixpoint rep (pad : str) (m : nat) : str :=
  match m with O => [] | S m' => pad ++ rep pad m' end.

Definition pad_string (v : str) (cnt : nat) (pad : str) : str :=
  let need := (cnt - length v)%nat in
  if (Nat.ltb (length pad) need) && (Nat.ltb 0 (length pad))
  then rep pad (Nat.div need (length pad) + 1) else pad.

Definition padleft (v : str) (cnt : nat) (pad : str) : str :=
  if Nat.ltb (length v) cnt then firstn (cnt - length v) (pad_string v cnt pad) ++ v else v.
Definition padright (v : str) (cnt : nat) (pad : str) : str :=
  if Nat.ltb (length v) cnt then v ++ firstn (cnt - length v) (pad_string v cnt pad) else v.

(* reference: the first k characters of pad repeated forever *)
Fixpoint cyc_aux (k : nat) (pad cur : str) : str :=
  match k with
  | O => []
  | S k' => match cur with
            | c :: r => c :: cyc_aux k' pad r
            | [] => match pad with
                    | c :: r => c :: cyc_aux k' pad r
                    | [] => []
                    end
            end
  end.
Definition cyc (k : nat) (pad : str) : str := cyc_aux k pad pad.

(** * #len, #sub, #pos, #rpos, #replace, #explode on stripped first arguments *)
Definition len_fn (s : str) : nat := length (strip s).

(* sub_fn after the integer parses (a missing/invalid number is 0) *)
Definition sub_fn (s : str) (start len : Z) : str :=
  let n := Z.of_nat (length s) in
  let st := if (start <? 0)%Z then Z.max 0 (n + start) else start in
  let st := Z.min st n in
  let ln := if (len =? 0)%Z then Z.max 0 (n - st)
            else if (len <? 0)%Z then Z.max 0 (n - st + len) else len in
  firstn (Z.to_nat ln) (skipn (Z.to_nat st) s).

(* str.find(needle, offset) with a non-empty needle; None = -1 *)
Fixpoint find_at (needle s : str) (i : nat) (fuel : nat) : option nat :=
  match fuel with
  | O => None
  | S f => if startswith needle s then Some i
           else match s with [] => None | _ :: r => find_at needle r (S i) f end
  end.
Definition find_from (needle s : str) (offset : nat) : option nat :=
  if Nat.ltb (length s) offset then None
  else find_at needle (skipn offset s) offset (S (length s)).

(* str.rfind(needle, offset): the last match starting at or after offset *)
Fixpoint rfind_at (needle s : str) (i : nat) (fuel : nat) (best : option nat) : option nat :=
  match fuel with
  | O => best
  | S f => let best' := if startswith needle s then Some i else best in
           match s with [] => best' | _ :: r => rfind_at needle r (S i) f best' end
  end.
Definition rfind_from (needle s : str) (offset : nat) : option nat :=
  if Nat.ltb (length s) offset then None
  else rfind_at needle (skipn offset s) offset (S (length s)) None.

(* str.replace(old, new), old non-empty: left-to-right, non-overlapping *)
Fixpoint replace_all (old new s : str) (fuel : nat) : str :=
  match fuel with
  | O => s
  | S f => match s with
           | [] => []
           | c :: r => if startswith old s then new ++ replace_all old new (skipn (length old) s) f
                       else c :: replace_all old new r f
           end
  end.
Definition replace_fn (s old new : str) : str := replace_all old new s (S (length s)).

(* str.split(delim), delim non-empty *)
Fixpoint split_on (delim s cur_rev : str) (fuel : nat) : list str :=
  match fuel with
  | O => [rev cur_rev]
  | S f => match s with
           | [] => [rev cur_rev]
           | c :: r => if startswith delim s then rev cur_rev :: split_on delim (skipn (length delim) s) [] f
                       else split_on delim r (c :: cur_rev) f
           end
  end.
Definition split_fn (s delim : str) : list str := split_on delim s [] (S (length s)).

Fixpoint join (sep : str) (l : list str) : str :=
  match l with [] => [] | [x] => x | x :: r => x ++ sep ++ join sep r end.

Definition explode_fn (s delim : str) (position limit : Z) : str :=
  let parts := split_fn s delim in
  let parts := if ((0 <? limit)%Z && Nat.ltb (Z.to_nat limit) (length parts))%bool
               then firstn (Z.to_nat limit - 1)%nat parts ++ [join delim (skipn (Z.to_nat limit - 1)%nat parts)]
               else parts in
  let pos := if (position <? 0)%Z then (Z.of_nat (length parts) + position)%Z else position in
  if ((pos <? 0)%Z || (Z.of_nat (length parts) <=? pos)%Z)%bool then []
  else nth (Z.to_nat pos) parts [].

(** * the comparison of #ifeq and #switch (parserfns.py: mw_equal): two trimmed strings that both are numbers -
    [+-]? (digits [. digits] | . digits) ([eE] [+-]? digits)? - are compared numerically, anything else as text.
    Numbers are compared exactly here (mantissa and decimal exponent); the code compares integers exactly and other
    numbers as floats, which is the same up to about 15 significant digits and exponents within the float range. *)
Fixpoint take_digits (s : str) : str * str :=
  match s with
  | c :: r => if is_digit c then let (d, rest) := take_digits r in (c :: d, rest) else ([], s)
  | [] => ([], [])
  end.
Fixpoint digits_val (s : str) (acc : N) : N :=
  match s with [] => acc | c :: r => digits_val r (10 * acc + (c - 48)) end.
Definition take_sign (s : str) : bool * str :=
  match s with
  | 45 :: r => (true, r)
  | 43 :: r => (false, r)
  | _ => (false, s)
  end.
Record number := mknumber { num_neg : bool; num_mant : N; num_exp : Z }.      (* (-1)^neg * mant * 10^exp *)
Definition parse_number (s : str) : option number :=
  let (neg, s1) := take_sign s in
  let (d1, s2) := take_digits s1 in
  let '(d2, has_dot, s3) := match s2 with
                            | 46 :: r => let (d, rest) := take_digits r in (d, true, rest)
                            | _ => ([], false, s2)
                            end in
  if (match d1 with [] => negb has_dot || match d2 with [] => true | _ => false end | _ => false end) then None
  else
    let mant := digits_val (d1 ++ d2) 0 in
    let frac := Z.of_nat (length d2) in
    match s3 with
    | [] => Some (mknumber neg mant (- frac))
    | c :: r =>
      if (c =? 101) || (c =? 69) then
        let (eneg, r1) := take_sign r in
        let (de, r2) := take_digits r1 in
        match de, r2 with
        | _ :: _, [] => let e := Z.of_N (digits_val de 0) in Some (mknumber neg mant ((if eneg then - e else e) - frac))
        | _, _ => None
        end
      else None
    end.
Definition number_eqb (a b : number) : bool :=
  if (num_mant a =? 0) && (num_mant b =? 0) then true
  else Bool.eqb (num_neg a) (num_neg b) &&
       (let e := Z.min (num_exp a) (num_exp b) in
        (Z.of_N (num_mant a) * 10 ^ (num_exp a - e) =? Z.of_N (num_mant b) * 10 ^ (num_exp b - e))%Z).
Definition mw_equal (a b : str) : bool :=
  str_eqb a b || match parse_number a, parse_number b with
                 | Some x, Some y => number_eqb x y
                 | _, _ => false
                 end.

(** * plural: the result string of #expr selects the form *)
Definition plural_fn (expr_result one many : str) : str :=
  if str_eqb expr_result [49] then one else many.

(** * formatnum *)
Record locale := mkloc { decimal_point : str; grouping_sep : str; grouping_method : list nat }.

Fixpoint contains (needle s : str) (fuel : nat) : bool :=
  match fuel with
  | O => false
  | S f => startswith needle s || match s with [] => false | _ :: r => contains needle r f end
  end.
Definition str_in (needle s : str) : bool := contains needle s (S (length s)).

Definition dot : N := 46.
Fixpoint count_c (c : N) (s : str) : nat :=
  match s with [] => O | x :: r => ((if N.eqb x c then 1 else 0) + count_c c r)%nat end.

(* grouping of the reversed integer digits: sizes from [method]; a 0 entry or the
   end of the list repeats the previous size *)
Fixpoint group_rev (rdigits : str) (size : nat) (method : list nat) (fuel : nat) : list str :=
  match fuel with
  | O => []
  | S f =>
    match rdigits with
    | [] => []
    | _ => let g := rev (firstn size rdigits) in
           let rest := skipn size rdigits in
           match method with
           | m :: ms => g :: group_rev rest (if Nat.ltb 0 m then m else size) ms f
           | [] => g :: group_rev rest size [] f
           end
    end
  end.

Definition format_int (loc : locale) (sep : str) (digits : str) : str :=
  match grouping_method loc with
  | [] => digits
  | m :: ms => join sep (rev (group_rev (rev digits) m ms (S (length digits))))
  end.

Definition allowed_not_r (c : N) : bool := is_digit c || (c =? 46) || (c =? 44).

Fixpoint split_dot (s : str) : str * option str :=
  match s with
  | [] => ([], None)
  | c :: r => if c =? dot then ([], Some r)
              else let (a, b) := split_dot r in (c :: a, b)
  end.

(* formatnum_fn with arg1 not in {R, NOSEP}; arg0 already stripped *)
Definition formatnum (loc : locale) (arg0 : str) : str :=
  if match arg0 with [] => true | _ => false end
     || negb (forallb allowed_not_r arg0) || Nat.ltb 1 (count_c dot arg0) then arg0
  else
    let sep := grouping_sep loc in
    if str_in sep (filter (fun c => negb (c =? dot)) arg0) then arg0
    else
      let (ip, fp) := split_dot arg0 in
      format_int loc sep ip ++
      match fp with Some f => decimal_point loc ++ f | None => [] end.

Fixpoint count_sub (needle s : str) (fuel : nat) : nat :=
  match fuel with
  | O => O
  | S f => match s with
           | [] => O
           | _ :: r => if startswith needle s then S (count_sub needle (skipn (length needle) s) f)
                       else count_sub needle r f
           end
  end.

Definition allowed_r (loc : locale) (c : N) : bool :=
  is_digit c || existsb (N.eqb c) (decimal_point loc) || existsb (N.eqb c) (grouping_sep loc)
  || (str_eqb (grouping_sep loc) [160] && (c =? 32)).

Definition formatnum_reverse (loc : locale) (arg0 : str) : str :=
  let dec := decimal_point loc in
  if match arg0 with [] => true | _ => false end
     || negb (forallb (allowed_r loc) arg0)
     || Nat.ltb 1 (count_sub dec arg0 (S (length arg0))) then arg0
  else
    let sep := grouping_sep loc in
    let rm s x := match x with [] => s | _ => replace_fn s x [] end in
    if str_eqb sep [160] then rm (rm (replace_fn arg0 dec [dot]) sep) [32]
    else replace_fn (rm arg0 sep) dec [dot].

(** * integer #expr: reference evaluator (documented precedence is in the printer) *)
Inductive uop := UNeg | UPos | UNot | UAbs | UCeil | UFloor | UTrunc.
Inductive bop := BAdd | BSub | BMul | BDiv | BMod | BPow | BRound
               | BEq | BNe | BLt | BGt | BLe | BGe | BAnd | BOr.
Inductive ast := Num (n : N) | Un (o : uop) (a : ast) | Bin (o : bop) (a b : ast).

Open Scope Z_scope.
Definition b2z (b : bool) : Z := if b then 1 else 0.
(* values outside the range in which floats are exact are not compared *)
Definition in_range (z : Z) : bool := Z.abs z <? 2 ^ 50.
Definition guard (o : option Z) : option Z :=
  match o with Some z => if in_range z then Some z else None | None => None end.
Fixpoint eval (e : ast) : option Z :=
  match e with
  | Num n => Some (Z.of_N n)
  | Un o a =>
    match eval a with
    | None => None
    | Some x => Some (match o with
                      | UNeg => - x | UPos => x | UNot => b2z (x =? 0)
                      | UAbs => Z.abs x | UCeil | UFloor | UTrunc => x end)
    end
  | Bin o a b =>
    match eval a, eval b with
    | Some x, Some y =>
      guard match o with
      | BAdd => Some (x + y) | BSub => Some (x - y) | BMul => Some (x * y)
      | BDiv => if (y =? 0) || negb (x mod y =? 0) then None else Some (x / y)
      | BMod => if (y <=? 0) || (x <? 0) then None else Some (x mod y)
      | BPow => if (y <? 0) then None else Some (x ^ y)
      | BRound => if y =? 0 then Some x else None
      | BEq => Some (b2z (x =? y)) | BNe => Some (b2z (negb (x =? y)))
      | BLt => Some (b2z (x <? y)) | BGt => Some (b2z (y <? x))
      | BLe => Some (b2z (x <=? y)) | BGe => Some (b2z (y <=? x))
      | BAnd => Some (b2z (negb (x =? 0) && negb (y =? 0)))
      | BOr => Some (b2z (negb (x =? 0) || negb (y =? 0)))
      end
    | _, _ => None
    end
  end.

(* decimal rendering of the result, as #expr prints an integer *)
Fixpoint digits_of_pos (fuel : nat) (n : N) (acc : str) : str :=
  match fuel with
  | O => acc
  | S f => let d := (48 + N.modulo n 10)%N in
           if (n <? 10)%N then d :: acc else digits_of_pos f (N.div n 10) (d :: acc)
  end.
Definition show_Z (z : Z) : str :=
  let n := Z.to_N (Z.abs z) in
  let ds := digits_of_pos (S (N.to_nat (N.log2 n))) n [] in
  if z <? 0 then 45%N :: ds else ds.

(** * Dispatch used by the correspondence check: the argument strings are the
    raw |-separated arguments after expansion (first one already lstripped by
    the expander); the result is the text the parser function returns. *)
Open Scope N_scope.
Definition show_nat (n : nat) : str := show_Z (Z.of_nat n).

Definition all_digit (s : str) : bool := match s with [] => false | _ => forallb is_digit s end.
Fixpoint num_acc (s : str) (acc : N) : N :=
  match s with [] => acc | c :: r => num_acc r (10 * acc + (c - 48)) end.
(* int(s) for canonical decimal numerals with optional sign; anything else -> 0 (ValueError path) *)
Definition parse_int (s : str) : Z :=
  match s with
  | 45 :: r => if all_digit r then (- Z.of_N (num_acc r 0))%Z else 0%Z
  | 43 :: r => if all_digit r then Z.of_N (num_acc r 0) else 0%Z
  | _ => if all_digit s then Z.of_N (num_acc s 0) else 0%Z
  end.
Definition digit_count (s : str) : nat := if all_digit s then N.to_nat (num_acc s 0) else O.
Definition or_space (s : str) : str := match s with [] => [32] | _ => s end.
Definition arg (n : nat) (args : list str) : str := nth n args [].
Definition has_arg (n : nat) (args : list str) : bool := Nat.ltb n (length args).

Inductive fnid := FLen | FPos | FRpos | FSub | FReplace | FExplode | FPadleft | FPadright
                | FLc | FUc | FLcfirst | FUcfirst | FPlural.

Definition call_fn (f : fnid) (args : list str) : str :=
  let a0 := arg 0 args in let a1 := arg 1 args in let a2 := arg 2 args in let a3 := arg 3 args in
  match f with
  | FLen => show_nat (len_fn a0)
  | FPos => match find_from (if has_arg 1 args then or_space a1 else [32]) (strip a0) (digit_count (strip a2)) with
            | Some i => show_nat i | None => [] end
  | FRpos => match rfind_from (if has_arg 1 args then or_space a1 else [32]) (strip a0) (digit_count (strip a2)) with
             | Some i => show_nat i | None => [45; 49] end
  | FSub => sub_fn (strip a0) (parse_int (strip a1)) (parse_int (strip a2))
  | FReplace => replace_fn (strip a0) (if has_arg 1 args then or_space a1 else [32]) a2
  | FExplode => explode_fn (strip a0) (if has_arg 1 args then or_space a1 else [32])
                           (parse_int (strip a2)) (parse_int (strip a3))
  | FPadleft => padleft a0 (if has_arg 1 args then Nat.min (digit_count (strip a1)) 500 else O) (if has_arg 2 args then a2 else [48])
  | FPadright => padright a0 (if has_arg 1 args then Nat.min (digit_count (strip a1)) 500 else O) (if has_arg 2 args then a2 else [48])
  | FLc => lower (strip a0)
  | FUc => upper (strip a0)
  | FLcfirst => match strip a0 with [] => [] | c :: r => lower_c c :: r end
  | FUcfirst => upper_first (strip a0)
  | FPlural => plural_fn (strip a0) (strip a1) (strip a2)   (* a0: a literal integer numeral *)
  end.

