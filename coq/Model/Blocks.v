(** Blocks of a page, line by line (C02): headings, paragraphs, horizontal rules and list lines in any order.
    The list lines run the list machine of Model/Lists.v on top of the section stack of Model/Nest.v; every other
    block first closes all open lists (close_begline_lists: "while a LIST is on the stack: pop") -- the completed
    top-level lists are then children of the innermost open section -- and then does what Model/Nest.v says. *)
From Coq Require Import List Arith Bool.
From WTP Require Model.Lists Model.Nest.
Import ListNotations.

Inductive cblk := BH (l id : nat) | BT (id : nat) | BHR (id : nat) | BLI (m : Lists.marker) (id : nat).

Definition cstate := (Lists.state * (Nest.frame * list Nest.frame))%type.

(* close_begline_lists: everything the list machine has open is closed; the lists become content of the section *)
Definition flush (st : cstate) : Nest.frame * list Nest.frame :=
  let '(lst, (top, rest)) := st in
  (fold_left (fun t n => Nest.addc t (Nest.IT (Nest.PList n))) (Lists.finish lst) top, rest).

Definition no_lists : Lists.state := ([], []).
Definition to_blk (b : cblk) : Nest.blk :=
  match b with
  | BH l id => Nest.H l id
  | BT id => Nest.T (Nest.PText id)
  | BHR id => Nest.HR id
  | BLI _ id => Nest.T (Nest.PText id)      (* not used *)
  end.

Definition cstep (st : cstate) (b : cblk) : cstate :=
  match b with
  | BLI m id => (Lists.step (fst st) (m, id), snd st)
  | _ => (no_lists, Nest.step (flush st) (to_blk b))
  end.

Definition cfinish (st : cstate) : list Nest.item := Nest.finish (flush st).
Definition parse (d : list cblk) : list Nest.item := cfinish (fold_left cstep d (no_lists, (Nest.root, []))).

(** the same page with every maximal run of list lines replaced by the lists it forms *)
Definition lists_as_blocks (f : list (Lists.marker * nat) -> list Lists.lnode) (pend : list (Lists.marker * nat)) : list Nest.blk :=
  map (fun n => Nest.T (Nest.PList n)) (f pend).
Fixpoint group (f : list (Lists.marker * nat) -> list Lists.lnode) (pend : list (Lists.marker * nat)) (d : list cblk)
  : list Nest.blk :=
  match d with
  | [] => lists_as_blocks f pend
  | BLI m id :: r => group f (pend ++ [(m, id)]) r
  | b :: r => lists_as_blocks f pend ++ to_blk b :: group f [] r
  end.

(** the specification: sections absorb what follows (Nest.spec), list lines form lists by the prefix rule (Lists.spec) *)
Definition spec (d : list cblk) : list Nest.item := Nest.spec (group Lists.spec [] d).
Definition cblk_ok (b : cblk) : Prop := match b with BH l _ => 1 <= l | BLI m _ => m <> [] | _ => True end.
