(** Model of [Wtp.analyze_templates] (core.py): worklist propagation of the
    pre-expand mark over the inclusion graph, then the two one-hop redirect
    updates.  Templates are numbered [0 .. n-1]; an edge [(u, t)] says that
    template [t] includes template [u] (so [t] is in [included_map[u]]).
    No proofs in this file: the model must stay runnable if a proof breaks. *)
From Coq Require Import List Arith Bool.
Import ListNotations.

Definition mem (x : nat) (l : list nat) : bool := existsb (Nat.eqb x) l.

Definition includers (edges : list (nat * nat)) (u : nat) : list nat :=
  map snd (filter (fun e => fst e =? u) edges).

(* the inner for-loop: every includer that is not yet marked is marked and pushed *)
Fixpoint visit (ts marked stack : list nat) : list nat * list nat :=
  match ts with
  | [] => (marked, stack)
  | t :: r => if mem t marked then visit r marked stack
              else visit r (t :: marked) (t :: stack)
  end.

(* the while-loop, on explicit fuel *)
Fixpoint loop (fuel : nat) (edges : list (nat * nat)) (marked stack : list nat)
  : list nat * list nat :=
  match fuel with
  | 0 => (marked, stack)
  | S f =>
    match stack with
    | [] => (marked, [])
    | p :: rest => let (m', s') := visit (includers edges p) marked rest in
                   loop f edges m' s'
    end
  end.

Definition fuel_for (n : nat) (flagged : list nat) : nat := 2 * n + length flagged + 1.

Definition propagate (n : nat) (edges : list (nat * nat)) (flagged : list nat)
  : list nat * list nat :=
  loop (fuel_for n flagged) edges flagged (rev flagged).

(* redirects: [(r, d)] = page r is a redirect whose target is page d.
   First UPDATE: sources of marked destinations; second: destinations of
   marked sources (evaluated on the table as left by the first). *)
Definition redirect_sources (reds : list (nat * nat)) (marked : list nat) : list nat :=
  map fst (filter (fun e => mem (snd e) marked && negb (mem (fst e) marked)) reds).
Definition redirect_dests (reds : list (nat * nat)) (marked : list nat) : list nat :=
  map snd (filter (fun e => mem (fst e) marked && negb (mem (snd e) marked)) reds).

Definition analyze (n : nat) (edges : list (nat * nat)) (flagged : list nat)
           (reds : list (nat * nat)) : list nat :=
  let m1 := fst (propagate n edges flagged) in
  let m2 := redirect_sources reds m1 ++ m1 in
  redirect_dests reds m2 ++ m2.

(* comparison used by the correspondence check *)
Definition subset (a b : list nat) : bool := forallb (fun x => mem x b) a.
Definition set_eqb (a b : list nat) : bool := subset a b && subset b a.
