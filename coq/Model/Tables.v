(** Tables (C03): the table handlers of parser.py -- table_start_fn, table_caption_fn, table_row_fn,
    table_hdr_cell_fn, table_cell_fn, double_vbar_fn, table_end_fn, table_check_attrs / table_row_check_attrs with
    the first branch of check_for_attributes, and text_fn's appending of plain text -- as a machine over the parser
    stack, and the grammar of written tables with the tree the property text prescribes for them.

    Text is abstracted to atoms: an atom is an identifier plus whether parse_attrs finds an attribute in it (a word
    does, punctuation does not).  A handler situation the machine does not transcribe (check_for_attributes on
    children that contain a node) makes it stop with [None]; the theorems show this never happens on the grammar,
    and the correspondence check skips (and counts) such token sequences. *)
From Coq Require Import List Arith Bool.
Import ListNotations.

Definition atom := (nat * bool)%type.
Inductive tkind := KBottom | KTable | KRow | KCell | KHdr | KCaption.
Definition tkind_eqb (a b : tkind) : bool :=
  match a, b with
  | KBottom, KBottom | KTable, KTable | KRow, KRow | KCell, KCell | KHdr, KHdr | KCaption, KCaption => true
  | _, _ => false
  end.

Inductive tnode := TN (k : tkind) (attrs : list nat) (ch : list tchild)
with tchild := CS (s : list atom) | CN (n : tnode).

(** ** The parser stack: top first, children lists reversed *)
Record frame := mkframe { fk : tkind; fattrs : list nat; fch : list tchild }.
Definition stack := list frame.

Definition close (f : frame) : tnode := TN (fk f) (fattrs f) (rev (fch f)).
Definition addchild (f : frame) (c : tchild) : frame := mkframe (fk f) (fattrs f) (c :: fch f).
(* text_fn appends the text; _parser_merge_str_children joins it with a string before it *)
Definition add_text_ch (a : atom) (ch : list tchild) : list tchild :=
  match ch with CS s :: r => CS (s ++ [a]) :: r | _ => CS [a] :: ch end.
Definition add_text (a : atom) (f : frame) : frame := mkframe (fk f) (fattrs f) (add_text_ch a (fch f)).
(* parse_attrs: the attributes found in the string are added to node.attrs *)
Definition attrs_in (s : list atom) : list nat := map fst (filter snd s).
Definition take_attrs (f : frame) (s : list atom) : frame := mkframe (fk f) (fattrs f ++ attrs_in s) [].

Definition push (k : tkind) (st : stack) : stack := mkframe k [] [] :: st.
(* _parser_pop for these kinds: the node is complete and stays in its parent's children *)
Definition pop (st : stack) : option stack :=
  match st with
  | n :: p :: r => Some (addchild p (CN (close n)) :: r)
  | _ => None
  end.
Definition text (a : atom) (st : stack) : option stack :=
  match st with f :: r => Some (add_text a f :: r) | [] => None end.
Definition have_table (st : stack) : bool := existsb (fun f => tkind_eqb (fk f) KTable) st.
Definition top_kind (st : stack) : tkind := match st with f :: _ => fk f | [] => KBottom end.

(* table_check_attrs (k = KTable) / table_row_check_attrs (k = KRow): only when the node of that kind is on top and
   has children; a row that already has a cell is left alone; check_for_attributes' first branch: one string child
   becomes the attribute string *)
Definition is_cell_child (c : tchild) : bool :=
  match c with CN (TN KCell _ _) | CN (TN KHdr _ _) => true | _ => false end.
Definition check_attrs (k : tkind) (st : stack) : option stack :=
  match st with
  | f :: r =>
    if tkind_eqb (fk f) k then
      if tkind_eqb k KRow && existsb is_cell_child (fch f) then Some st
      else
        match fch f with
        | [] => Some st
        | [CS s] => Some (take_attrs f s :: r)
        | _ => None                         (* candidate string built from node_to_wikitext: not transcribed *)
        end
    else Some st
  | [] => None
  end.

Definition bind {A B} (x : option A) (f : A -> option B) : option B := match x with Some a => f a | None => None end.
Notation "x >>= f" := (bind x f) (at level 50, left associativity).

(* "while True: if top is TABLE: break; _parser_pop(ctx, True)" *)
Fixpoint pop_to_table (fuel : nat) (st : stack) : option stack :=
  match fuel with
  | O => None
  | S n => if tkind_eqb (top_kind st) KTable then Some st else pop st >>= pop_to_table n
  end.

(** tokens; [bol] is (ctx.beginning_of_line and ctx.begline_enabled); lines starting with blanks are outside *)
Inductive tok :=
| TStart | TCaption | TRow | TEnd            (* "{|"  "|+"  "|-"  "|}" at the beginning of a line *)
| TBar (bol : bool) | TBar2                  (* "|"  "||" *)
| TBang (bol : bool) | TBang2                (* "!"  "!!" *)
| TText (a : atom).

Definition table_start_fn (st : stack) : option stack := Some (push KTable st).

Definition table_caption_fn (a : atom) (st : stack) : option stack :=
  check_attrs KTable st >>= fun st =>
  if negb (have_table st) then text a st
  else pop_to_table (length st) st >>= fun st => Some (push KCaption st).

Definition table_row_fn (a : atom) (st : stack) : option stack :=
  check_attrs KTable st >>= fun st =>
  if negb (have_table st) then text a st
  else pop_to_table (length st) st >>= fun st => Some (push KRow st).

Fixpoint hdr_loop (fuel : nat) (bol : bool) (a : atom) (st : stack) : option stack :=
  match fuel with
  | O => None
  | S n =>
    match top_kind st with
    | KRow => Some (push KHdr st)
    | KTable => Some (push KHdr (push KRow st))
    | KCaption => if bol then pop st >>= fun st => Some (push KHdr (push KRow st)) else text a st
    | KCell => if bol then pop st >>= hdr_loop n bol a else text a st
    | _ => pop st >>= hdr_loop n bol a
    end
  end.
(* [double]: the token is "!!" (or "||" redirected here by double_vbar_fn) *)
Definition table_hdr_cell_fn (double bol : bool) (a : atom) (st : stack) : option stack :=
  check_attrs KRow st >>= check_attrs KTable >>= fun st =>
  if negb (have_table st) then text a st
  else if negb double && negb bol then text a st
  else hdr_loop (length st) bol a st.

Fixpoint cell_loop (fuel : nat) (a : atom) (st : stack) : option stack :=
  match fuel with
  | O => None
  | S n =>
    match top_kind st with
    | KRow => Some (push KCell st)
    | KTable => Some (push KCell (push KRow st))
    | KCaption => text a st
    | _ => pop st >>= cell_loop n a
    end
  end.
Definition is_cellish (k : tkind) : bool := match k with KCaption | KHdr | KCell => true | _ => false end.
Definition table_cell_fn (double bol : bool) (a : atom) (st : stack) : option stack :=
  check_attrs KRow st >>= check_attrs KTable >>= fun st =>
  if negb (have_table st) then text a st
  else
    match st with
    | f :: r =>
      if negb double && negb bol && is_cellish (fk f) then
        (* "|" inside a caption or cell: it ends the attribute section, once *)
        match fattrs f with
        | [] => match fch f with [CS s] => Some (take_attrs f s :: r) | _ => Some st end
        | _ => text a st
        end
      else cell_loop (length st) a st
    | [] => None
    end.

Fixpoint dvbar_loop (fuel : nat) (st : stack) : option (stack * bool) :=   (* bool: "return text_fn(ctx, token)" *)
  match fuel with
  | O => None
  | S n =>
    match top_kind st with
    | KRow => Some (st, false)
    | KTable => Some (push KRow st, false)
    | KCaption => Some (st, true)
    | KCell | KHdr => pop st >>= dvbar_loop n
    | KBottom => Some (st, false)
    end
  end.
Definition last_child_is_hdr (f : frame) : bool :=
  match fch f with CN (TN KHdr _ _) :: _ => true | _ => false end.
Definition double_vbar_fn (a : atom) (st : stack) : option stack :=
  dvbar_loop (length st) st >>= fun '(st, as_text) =>
  if as_text then text a st
  else match st with
       | f :: _ => if tkind_eqb (fk f) KRow && last_child_is_hdr f
                   then table_hdr_cell_fn true false a st else table_cell_fn true false a st
       | [] => None
       end.

Fixpoint end_loop (fuel : nat) (st : stack) : option stack :=
  match fuel with
  | O => None
  | S n => if tkind_eqb (top_kind st) KTable then pop st else pop st >>= end_loop n
  end.
Definition table_end_fn (a : atom) (st : stack) : option stack :=
  check_attrs KRow st >>= check_attrs KTable >>= fun st =>
  if negb (have_table st) then text a st else end_loop (length st) st.

(* vbar_fn outside argument-bearing nodes *)
Definition vbar_fn (bol : bool) (a : atom) (st : stack) : option stack :=
  if have_table st then table_cell_fn false bol a st else text a st.

(* the text a token becomes when it is not markup: the token's own characters, recorded as an atom per token kind *)
Definition mark_of (t : tok) : atom :=
  match t with
  | TStart => (900, false) | TCaption => (901, false) | TRow => (902, false) | TEnd => (903, false)
  | TBar _ => (904, false) | TBar2 => (905, false) | TBang _ => (906, false) | TBang2 => (907, false)
  | TText a => a
  end.
Definition step (st : stack) (t : tok) : option stack :=
  let mark := mark_of t in
  match t with
  | TStart => table_start_fn st
  | TCaption => table_caption_fn mark st
  | TRow => table_row_fn mark st
  | TEnd => table_end_fn mark st
  | TBar bol => vbar_fn bol mark st
  | TBar2 => double_vbar_fn mark st
  | TBang true => table_hdr_cell_fn false true mark st
  | TBang false => text mark st            (* the tokenizer only makes a token of "!" at the beginning of a line *)
  | TBang2 => table_hdr_cell_fn true false mark st
  | TText a => text a st
  end.
Fixpoint run (ts : list tok) (st : stack) : option stack :=
  match ts with
  | [] => Some st
  | t :: r => step st t >>= run r
  end.
Definition bottom : frame := mkframe KBottom [] [].
(* parse_encoded pops whatever is still open at the end *)
Fixpoint pop_all (fuel : nat) (st : stack) : option frame :=
  match fuel, st with
  | _, [f] => Some f
  | S n, _ => pop st >>= pop_all n
  | O, _ => None
  end.
Definition parse (ts : list tok) : option (list tchild) :=
  run ts [bottom] >>= fun st => pop_all (length st) st >>= fun f => Some (rev (fch f)).

(** ** The grammar of written tables and the tree each one stands for *)
Inductive sep := SBol (hdr : bool) | SDouble | SBang2.
Inductive citem := IText (a : atom) | ITable (t : table)
with table := Table (tattr : option atom) (cap : option body) (rows : list row)
with row := Row (rattr : option atom) (hdr : bool) (first : body) (more : list cell)
with cell := Cell (s : sep) (b : body)
with body := Body (battr : option atom) (content : list citem).

Definition opt_toks (o : option atom) : list tok := match o with Some a => [TText a] | None => [] end.
Definition opt_attrs (o : option atom) : list nat := match o with Some a => attrs_in [a] | None => [] end.
Definition sep_tok (s : sep) : tok :=
  match s with SBol true => TBang true | SBol false => TBar true | SDouble => TBar2 | SBang2 => TBang2 end.

Fixpoint render_item (i : citem) : list tok :=
  match i with IText a => [TText a] | ITable t => render_table t end
with render_table (t : table) : list tok :=
  match t with
  | Table tattr cap rows =>
    TStart :: opt_toks tattr
      ++ match cap with Some b => TCaption :: render_body b | None => [] end
      ++ (fix go (rs : list row) := match rs with [] => [] | r :: rs' => render_row r ++ go rs' end) rows
      ++ [TEnd]
  end
with render_row (r : row) : list tok :=
  match r with
  | Row rattr h first more =>
    TRow :: opt_toks rattr ++ sep_tok (SBol h) :: render_body first
      ++ (fix go (cs : list cell) := match cs with [] => [] | c :: cs' => render_cell c ++ go cs' end) more
  end
with render_cell (c : cell) : list tok :=
  match c with Cell s b => sep_tok s :: render_body b end
with render_body (b : body) : list tok :=
  match b with
  | Body battr content =>
    match battr with Some a => [TText a; TBar false] | None => [] end
      ++ (fix go (is : list citem) := match is with [] => [] | i :: is' => render_item i ++ go is' end) content
  end.

(* the kind a cell has: the written one at the start of a line; "||" continues the kind of the cell before it;
   "!!" is only a separator after a header cell *)
Definition kind_after (prev_hdr : bool) (s : sep) : bool :=
  match s with SBol h => h | SDouble => prev_hdr | SBang2 => true end.
Definition sep_ok (prev_hdr : bool) (s : sep) : bool :=
  match s with SBang2 => prev_hdr | _ => true end.
Definition cell_kind (h : bool) : tkind := if h then KHdr else KCell.

Fixpoint tree_table (t : table) : tnode :=
  match t with
  | Table tattr cap rows =>
    TN KTable (opt_attrs tattr)
       (match cap with Some b => [CN (tree_body KCaption b)] | None => [] end
        ++ (fix go (rs : list row) := match rs with [] => [] | r :: rs' => CN (tree_row r) :: go rs' end) rows)
  end
with tree_row (r : row) : tnode :=
  match r with
  | Row rattr h first more =>
    TN KRow (opt_attrs rattr)
       (CN (tree_body (cell_kind h) first)
        :: (fix go (prev : bool) (cs : list cell) :=
              match cs with
              | [] => []
              | Cell s b :: cs' => CN (tree_body (cell_kind (kind_after prev s)) b) :: go (kind_after prev s) cs'
              end) h more)
  end
with tree_body (k : tkind) (b : body) {struct b} : tnode :=
  match b with
  | Body battr content =>
    TN k (opt_attrs battr)
       (rev ((fix go (ch : list tchild) (is : list citem) :=
                match is with
                | [] => ch
                | IText a :: is' => go (add_text_ch a ch) is'
                | ITable t :: is' => go (CN (tree_table t) :: ch) is'
                end) [] content))
  end.

(* well-formed: "!!" only after a header cell *)
Fixpoint wf_item (i : citem) : bool :=
  match i with IText _ => true | ITable t => wf_table t end
with wf_table (t : table) : bool :=
  match t with
  | Table _ cap rows =>
    match cap with Some b => wf_body b | None => true end
    && (fix go (rs : list row) := match rs with [] => true | r :: rs' => wf_row r && go rs' end) rows
  end
with wf_row (r : row) : bool :=
  match r with
  | Row _ h first more =>
    wf_body first
    && (fix go (prev : bool) (cs : list cell) :=
          match cs with
          | [] => true
          | Cell s b :: cs' => sep_ok prev s && wf_body b && go (kind_after prev s) cs'
          end) h more
  end
with wf_body (b : body) : bool :=
  match b with
  | Body _ content => (fix go (is : list citem) := match is with [] => true | i :: is' => wf_item i && go is' end) content
  end.

(** comparison for the correspondence check *)
Fixpoint atoms_eqb (a b : list atom) : bool :=
  match a, b with
  | [], [] => true
  | (i, x) :: a', (j, y) :: b' => Nat.eqb i j && Bool.eqb x y && atoms_eqb a' b'
  | _, _ => false
  end.
Fixpoint nats_eqb (a b : list nat) : bool :=
  match a, b with
  | [], [] => true
  | i :: a', j :: b' => Nat.eqb i j && nats_eqb a' b'
  | _, _ => false
  end.
Fixpoint tnode_eqb (fuel : nat) (x y : tnode) : bool :=
  match fuel with
  | O => false
  | S f =>
    let fix go (p q : list tchild) : bool :=
      match p, q with
      | [], [] => true
      | CS s :: p', CS s' :: q' => atoms_eqb s s' && go p' q'
      | CN n :: p', CN n' :: q' => tnode_eqb f n n' && go p' q'
      | _, _ => false
      end in
    match x, y with TN k a c, TN k' a' c' => tkind_eqb k k' && nats_eqb a a' && go c c' end
  end.
Fixpoint children_eqb (fuel : nat) (p q : list tchild) : bool :=
  match p, q with
  | [], [] => true
  | CS s :: p', CS s' :: q' => atoms_eqb s s' && children_eqb fuel p' q'
  | CN n :: p', CN n' :: q' => tnode_eqb fuel n n' && children_eqb fuel p' q'
  | _, _ => false
  end.
