(** Pieces of node_expand.to_wikitext that carry a round-trip argument (C19):
    the protection of literal double brackets in text nodes.  (Attribute
    quoting is Model/Attrs.v.) *)
From WTP Require Import Base.Str.
Open Scope N_scope.

(* "<noinclude/>" *)
Definition ni : str := [60; 110; 111; 105; 110; 99; 108; 117; 100; 101; 47; 62].
Definition is_br (c : N) : bool := (c =? 91) || (c =? 93).
Definition next_is (c : N) (r : str) : bool := match r with x :: _ => x =? c | [] => false end.

(* re.sub(r"\[(?=\[)", "[<noinclude/>", s) then the same for "]": every bracket
   that is followed by the same bracket gets the marker after it *)
Fixpoint protect (s : str) : str :=
  match s with
  | [] => []
  | c :: r => c :: (if is_br c && next_is c r then ni else []) ++ protect r
  end.

(* no two equal brackets next to each other *)
Fixpoint no_double (s : str) : bool :=
  match s with
  | [] => true
  | a :: r => negb (is_br a && next_is a r) && no_double r
  end.
