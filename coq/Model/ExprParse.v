(** The recursive-descent parser of #expr (parserfns.py:expr_fn) as a ladder
    machine: the ladder (list of levels, loosest first) is data -- the one the
    code has is regenerated into Gen/GenLadder.v on every run.  A level is
    either a left-associative binary level (generic_binary: parse the next
    level, then loop while the next token is one of the level's operators) or
    a prefix level (parse_unary_fn: an operator of the level followed by the
    same level again, otherwise the next level).  Below the last level sits
    the hard-coded terminal: unary minus (recursive), unary plus (atom only),
    numbers and parenthesised expressions.  Tokens are what the tokenizer
    regex yields for blank-separated integer expressions. *)
From Coq Require Import List String NArith ZArith Bool Arith.
From WTP Require Import Base.Str Model.ParserFns.
Import ListNotations.
Local Open Scope list_scope.

Inductive lkind := LBin | LPre.
Definition level := (lkind * list string)%type.
Inductive tok := TNum (n : N) | TOp (o : string) | TLp | TRp.
Inductive gast := GNum (n : N) | GUn (o : string) (a : gast) | GBin (o : string) (a b : gast).

Definition mem (o : string) (ops : list string) : bool := existsb (String.eqb o) ops.

Definition atom (rec : list tok -> option (gast * list tok)) (ts : list tok) : option (gast * list tok) :=
  match ts with
  | TNum n :: r => Some (GNum n, r)
  | TLp :: r => match rec r with Some (a, TRp :: r') => Some (a, r') | _ => None end
  | _ => None
  end.

Section Parser.
Variable full : list level.

Fixpoint parse (fuel : nat) (lv : list level) (ts : list tok) {struct fuel} : option (gast * list tok) :=
  match fuel with
  | O => None
  | S f =>
    match lv with
    | [] =>
      match ts with
      | TOp o :: r =>
        if String.eqb o "-" then
          match parse f [] r with Some (a, r') => Some (GUn "-" a, r') | None => None end
        else if String.eqb o "+" then atom (parse f full) r
        else None
      | _ => atom (parse f full) ts
      end
    | (LBin, ops) :: rest =>
      match parse f rest ts with
      | Some (a, r) => loop f ops rest a r
      | None => None
      end
    | (LPre, ops) :: rest =>
      match ts with
      | TOp o :: r =>
        if mem o ops then
          match parse f lv r with Some (a, r') => Some (GUn o a, r') | None => None end
        else parse f rest ts
      | _ => parse f rest ts
      end
    end
  end
with loop (fuel : nat) (ops : list string) (rest : list level) (a : gast) (ts : list tok) {struct fuel}
  : option (gast * list tok) :=
  match fuel with
  | O => None
  | S f =>
    match ts with
    | TOp o :: r =>
      if mem o ops then
        match parse f rest r with
        | Some (b, r') => loop f ops rest (GBin o a b) r'
        | None => None
        end
      else Some (a, ts)
    | _ => Some (a, ts)
    end
  end.

(** Printing with the fewest parentheses the ladder allows *)
Definition lkind_eqb (a b : lkind) : bool := match a, b with LBin, LBin | LPre, LPre => true | _, _ => false end.
Fixpoint find_level (k : lkind) (o : string) (lv : list level) (i : nat) : option nat :=
  match lv with
  | [] => None
  | (k', ops) :: r => if lkind_eqb k k' && mem o ops then Some i else find_level k o r (S i)
  end.
Definition nlev : nat := length full.
Definition blevel (o : string) : option nat := find_level LBin o full 0.
Definition plevel (o : string) : option nat := find_level LPre o full 0.
Definition lvl (e : gast) : nat :=
  match e with
  | GNum _ => nlev
  | GUn o _ => match plevel o with Some p => p | None => 0 end
  | GBin o _ _ => match blevel o with Some i => i | None => 0 end
  end.
Fixpoint pr (e : gast) : list tok :=
  match e with
  | GNum n => [TNum n]
  | GUn o a =>
    let p := lvl e in
    TOp o :: (if Nat.ltb (lvl a) p then TLp :: pr a ++ [TRp] else pr a)
  | GBin o a b =>
    let i := lvl e in
    (if Nat.ltb (lvl a) i then TLp :: pr a ++ [TRp] else pr a) ++
    TOp o :: (if Nat.ltb (lvl b) (S i) then TLp :: pr b ++ [TRp] else pr b)
  end.
Definition paren (k : nat) (e : gast) : list tok := if Nat.ltb (lvl e) k then TLp :: pr e ++ [TRp] else pr e.

Fixpoint wfb (e : gast) : bool :=
  match e with
  | GNum _ => true
  | GUn o a => match plevel o with Some _ => wfb a | None => false end
  | GBin o a b => match blevel o with Some _ => wfb a && wfb b | None => false end
  end.

(* every operator sits in exactly one level of its kind *)
Definition ladder_okb : bool :=
  forallb (fun j => match nth_error full j with
                    | Some (k, ops) => forallb (fun o => match find_level k o full 0 with
                                                         | Some j' => Nat.eqb j j' | None => false end) ops
                    | None => true end) (seq 0 nlev).
End Parser.

(** Values: the operators the integer reference evaluator knows *)
Local Open Scope string_scope.
Definition uop_of (o : string) : option uop :=
  if String.eqb o "-" then Some UNeg else if String.eqb o "+" then Some UPos else if String.eqb o "not" then Some UNot
  else if String.eqb o "abs" then Some UAbs else if String.eqb o "ceil" then Some UCeil
  else if String.eqb o "floor" then Some UFloor else if String.eqb o "trunc" then Some UTrunc else None.
Definition bop_of (o : string) : option bop :=
  if String.eqb o "+" then Some BAdd else if String.eqb o "-" then Some BSub else if String.eqb o "*" then Some BMul
  else if String.eqb o "/" then Some BDiv else if String.eqb o "div" then Some BDiv else if String.eqb o "mod" then Some BMod
  else if String.eqb o "^" then Some BPow else if String.eqb o "round" then Some BRound
  else if String.eqb o "=" then Some BEq else if String.eqb o "!=" then Some BNe else if String.eqb o "<>" then Some BNe
  else if String.eqb o "<" then Some BLt else if String.eqb o ">" then Some BGt
  else if String.eqb o "<=" then Some BLe else if String.eqb o ">=" then Some BGe
  else if String.eqb o "and" then Some BAnd else if String.eqb o "or" then Some BOr else None.
Fixpoint to_ast (g : gast) : option ast :=
  match g with
  | GNum n => Some (Num n)
  | GUn o a => match uop_of o, to_ast a with Some u, Some x => Some (Un u x) | _, _ => None end
  | GBin o a b => match bop_of o, to_ast a, to_ast b with Some u, Some x, Some y => Some (Bin u x y) | _, _, _ => None end
  end.

(** Decidable equalities used by the correspondence check *)
Definition tok_eqb (a b : tok) : bool :=
  match a, b with
  | TNum x, TNum y => N.eqb x y
  | TOp x, TOp y => String.eqb x y
  | TLp, TLp | TRp, TRp => true
  | _, _ => false
  end.
Fixpoint toks_eqb (a b : list tok) : bool :=
  match a, b with
  | [], [] => true
  | x :: a', y :: b' => tok_eqb x y && toks_eqb a' b'
  | _, _ => false
  end.
Fixpoint gast_eqb (a b : gast) : bool :=
  match a, b with
  | GNum x, GNum y => N.eqb x y
  | GUn o x, GUn o' y => String.eqb o o' && gast_eqb x y
  | GBin o x1 x2, GBin o' y1 y2 => String.eqb o o' && gast_eqb x1 y1 && gast_eqb x2 y2
  | _, _ => false
  end.
