(** C04: the documented transclusion rule on the flat fragment - a call whose
    name and arguments are plain text, to a template whose body is plain text
    and parameter references with plain names and plain defaults - written
    without fuel, expansion path or passes.  Proofs/FlatCallProofs.v shows
    that the expander model (Model/Expand.v) computes exactly this; the check
    of C04 also compares it directly with Wtp.expand.  No proofs here. *)
From Coq Require Import List NArith Bool.
From WTP Require Import Base.Str Model.ArgViews Model.ParserFns Model.Expand.
Import ListNotations.
Open Scope N_scope.

Definition plain (e : enc) : bool := forallb is_ch e.

(** ** The rule (no fuel, no expansion path) *)

(* binding of the call's arguments: unnamed ones are numbered from 1 and kept verbatim, named ones
   (name=value, Model.Expand.split_named_i: the name is trimmed, digits only and positive = a number) have
   their value trimmed; a later binding of a key replaces an earlier one (am_set / am_get) *)
Definition name_key (kname : enc) : key :=
  let kc := codes kname in
  if positive_number kc then KInt (to_num kc) else KStr (strip_by sp_py (collapse_ws kc)).

Fixpoint bind_args (args : list enc) (num : N) (ht : argmap) : argmap :=
  match args with
  | [] => ht
  | a :: rest =>
    match split_named_i a with
    | Some (kname, v) => bind_args rest num (am_set ht (name_key kname) (strip_i v))
    | None => bind_args rest (num + 1) (am_set ht (KInt num) a)
    end
  end.

(* a template body of the fragment *)
Fixpoint flat_body (e : enc) : bool :=
  match e with
  | [] => true
  | Ch _ :: r => flat_body r
  | A [k] :: r => plain k && flat_body r
  | A [k; d] :: r => plain k && plain d && flat_body r
  | _ => false
  end.

Definition param_key (k : enc) : key := key_of_text (codes (strip_i k)).

(* substitution of the parameters; [val] says what is written for a bound value *)
Fixpoint subst (val : enc -> enc) (ht : argmap) (e : enc) : enc :=
  match e with
  | [] => []
  | A (k :: more) :: r =>
    (match am_get ht (param_key k) with
     | Some v => val v
     | None => match more with
               | d :: _ => d
               | [] => unexpanded_arg [chars (show_key (param_key k))]      (* stays literal *)
               end
     end) ++ subst val ht r
  | i :: r => i :: subst val ht r
  end.

(* MediaWiki: the bound value as it is.  The code: one trailing line break of the value is removed (the known
   finding c04:trailing-newline-dropped) *)
Definition mw_subst := subst (fun v => v).
Definition code_subst := subst drop_last_nl.

Definition values_plain (ht : argmap) : bool := forallb (fun p => plain (snd p)) ht.
Definition no_trailing_nl (ht : argmap) : bool := forallb (fun p => match rev (snd p) with i :: _ => negb (is_code 10 i) | [] => true end) ht.


(* the result of {{name|args}} written on a page *)
Definition result_of (lib : list tpl) (name : str) (args : list enc) : enc :=
  match find_tpl lib name with
  | None => chars (missing_tpl name)                      (* a link to the template page *)
  | Some t => add_newline (code_subst (bind_args args 1 []) (t_body t))
  end.
Definition mw_result_of (lib : list tpl) (name : str) (args : list enc) : enc :=
  match find_tpl lib name with
  | None => chars (missing_tpl name)
  | Some t => add_newline (mw_subst (bind_args args 1 []) (t_body t))
  end.

(* the fragment: [name] is a template name (no blanks at its ends, no colon, not a parser function), the
   arguments are plain, the stored body (if any) is flat *)
Definition flat_ok (pfnames : list str) (lib : list tpl) (name : str) (args : list enc) : bool :=
  str_eqb (codes (strip_i (chars name))) name && negb (existsb (N.eqb 58) name) &&
  match classify_pf pfnames (canon_pf pfnames name) with PfNone => true | _ => false end &&
  forallb plain args &&
  match find_tpl lib name with Some t => flat_body (t_body t) | None => true end.

(* a page of text and flat calls; each call is replaced by its result, the text stays *)
Definition flat_item (pfnames : list str) (lib : list tpl) (i : item) : bool :=
  match i with
  | Ch _ => true
  | T (n :: args) => plain n && flat_ok pfnames lib (codes n) args
  | _ => false
  end.
Definition page_result (lib : list tpl) (page : enc) : enc :=
  flat_map (fun i => match i with T (n :: args) => result_of lib (codes n) args | _ => [i] end) page.

(* ... under a selection (C13): with [pre_expand] only the calls check_template_need_expand selects are replaced, the
   others are emitted as they were written; without it every call is replaced *)
Definition page_result_sel (lib : list tpl) (sel : selection) (pre_expand : bool) (page : enc) : enc :=
  flat_map (fun i => match i with
                     | T (n :: args) => if negb pre_expand || need_expand lib sel (codes n) then result_of lib (codes n) args
                                        else unexpanded_template (n :: args)
                     | _ => [i]
                     end) page.

(* {{#if: cond | a | b}} with plain arguments: a when cond is not blank, else b (an absent argument is empty), trimmed;
   a newline is put before a result that starts with a list or table marker *)
Definition if_head : enc := chars s_if ++ [Ch 58].           (* "#if:" *)
Definition if_result (cond : enc) (more : list enc) : enc :=
  add_newline (strip_i (match strip_i cond with [] => nth 1 more [] | _ => nth 0 more [] end)).

(* {{#ifeq: x | y | a | b}} with plain arguments: a when x and y, trimmed, are equal - as numbers when both are numbers
   (01 = 1 = 1.0 = 1e0, 0 = -0), as text otherwise (ParserFns.mw_equal) - else b; trimmed *)
Definition ifeq_head : enc := chars s_ifeq ++ [Ch 58].       (* "#ifeq:" *)
Definition ifeq_result (x : enc) (more : list enc) : enc :=
  add_newline (strip_i (if mw_equal (codes (strip_i x)) (codes (strip_i (nth 0 more [])))
                        then nth 1 more [] else nth 2 more [])).

(* {{#switch: x | k1 = v1 | ... }} with plain keyed cases: the value of the first case whose key equals x, else the value
   of the last "#default = v" case, else empty; keys and values trimmed *)
Definition switch_head : enc := chars s_switch ++ [Ch 58].   (* "#switch:" *)
Definition mkcase (kv : enc * enc) : enc := fst kv ++ Ch 61 :: snd kv.
Definition case_ok (kv : enc * enc) : bool :=
  plain (fst kv) && forallb (fun i => negb (is_code 61 i) && negb (is_code 60 i)) (fst kv) && plain (snd kv).
Fixpoint switch_result (val : enc) (cases : list (enc * enc)) (defval : option enc) : enc :=
  match cases with
  | [] => match defval with Some d => strip_i d | None => [] end
  | (k, v) :: r => if mw_equal (codes (strip_i k)) (codes val) then strip_i v
                   else switch_result val r (if str_eqb (lower (codes (strip_i k))) s_default then Some v else defval)
  end.

(* ... and with a final item that has no "=": that item is the default, whatever an earlier "#default = v" said
   (MediaWiki's rule; fix 4429042) *)
Definition bare_ok (a : enc) : bool := plain a && forallb (fun i => negb (is_code 61 i)) a.
Fixpoint switch_trailing_result (val : enc) (cases : list (enc * enc)) (last : enc) : enc :=
  match cases with
  | [] => strip_i last
  | (k, v) :: r => if mw_equal (codes (strip_i k)) (codes val) then strip_i v else switch_trailing_result val r last
  end.

(** Calls inside arguments (C04: "arguments are expanded in the caller's frame").  An argument of the outer call is text
    and flat calls; a named argument has a plain name.  The value bound is the argument with every call in it replaced
    by that call's result - computed where the argument stands, not inside the outer template's body. *)
Definition nested_arg_ok (pfnames : list str) (lib : list tpl) (outer : str) (a : enc) : bool :=
  let items_ok := fun (e : enc) =>
    forallb (fun i => flat_item pfnames lib i &&
                      match i with T (n :: _) => negb (str_eqb (codes n) outer) | _ => true end) e in
  match split_named_i a with
  | Some (k, v) => plain k && items_ok v
  | None => items_ok a
  end.
Fixpoint bind_nested (lib : list tpl) (args : list enc) (num : N) (ht : argmap) : argmap :=
  match args with
  | [] => ht
  | a :: rest =>
    match split_named_i a with
    | Some (kname, v) => bind_nested lib rest num (am_set ht (name_key kname) (strip_i (page_result lib v)))
    | None => bind_nested lib rest (num + 1) (am_set ht (KInt num) (page_result lib a))
    end
  end.
Definition nested_result (lib : list tpl) (name : str) (args : list enc) : enc :=
  match find_tpl lib name with
  | None => chars (missing_tpl name)
  | Some t => add_newline (code_subst (bind_nested lib args 1 []) (t_body t))
  end.
Definition nested_ok (pfnames : list str) (lib : list tpl) (name : str) (args : list enc) : bool :=
  str_eqb (codes (strip_i (chars name))) name && negb (existsb (N.eqb 58) name) &&
  match classify_pf pfnames (canon_pf pfnames name) with PfNone => true | _ => false end &&
  forallb (nested_arg_ok pfnames lib name) args &&
  match find_tpl lib name with Some t => flat_body (t_body t) | None => true end.

(** Calls inside a template body (C04: "body encode -> substitute -> recursive expand with a new parent frame").  The
    body is text, parameter references, and calls to other templates with plain names and plain arguments.  After the
    parameters have been substituted, every such call is replaced by its result; one trailing line break of each of its
    arguments is dropped first (the known finding c04:trailing-newline-dropped). *)
Fixpoint body_subst (ht : argmap) (e : enc) : enc :=
  match e with
  | [] => []
  | A (k :: more) :: r =>
    (match am_get ht (param_key k) with
     | Some v => drop_last_nl v
     | None => match more with
               | d :: _ => d
               | [] => unexpanded_arg [chars (show_key (param_key k))]
               end
     end) ++ body_subst ht r
  | T args :: r => T (map drop_last_nl args) :: body_subst ht r
  | i :: r => i :: body_subst ht r
  end.
Fixpoint body_calls_ok (pfnames : list str) (lib : list tpl) (outer : str) (e : enc) : bool :=
  match e with
  | [] => true
  | Ch _ :: r => body_calls_ok pfnames lib outer r
  | A [k] :: r => plain k && body_calls_ok pfnames lib outer r
  | A [k; d] :: r => plain k && plain d && body_calls_ok pfnames lib outer r
  | T (n :: args) :: r =>
      plain n && forallb plain args && flat_ok pfnames lib (codes n) (map drop_last_nl args) &&
      negb (str_eqb (codes n) outer) && body_calls_ok pfnames lib outer r
  | _ => false
  end.
Definition body_calls_result (lib : list tpl) (name : str) (args : list enc) : enc :=
  match find_tpl lib name with
  | None => chars (missing_tpl name)
  | Some t => add_newline (page_result lib (body_subst (bind_args args 1 []) (t_body t)))
  end.
Definition body_calls_call_ok (pfnames : list str) (lib : list tpl) (name : str) (args : list enc) : bool :=
  str_eqb (codes (strip_i (chars name))) name && negb (existsb (N.eqb 58) name) &&
  match classify_pf pfnames (canon_pf pfnames name) with PfNone => true | _ => false end &&
  forallb plain args &&
  match find_tpl lib name with Some t => body_calls_ok pfnames lib name (t_body t) | None => true end.

(* both at once: calls in the arguments (expanded in the caller's frame) and calls in the body (expanded after the
   substitution, in the new frame) *)
Definition two_level_result (lib : list tpl) (name : str) (args : list enc) : enc :=
  match find_tpl lib name with
  | None => chars (missing_tpl name)
  | Some t => add_newline (page_result lib (body_subst (bind_nested lib args 1 []) (t_body t)))
  end.
Definition two_level_ok (pfnames : list str) (lib : list tpl) (name : str) (args : list enc) : bool :=
  str_eqb (codes (strip_i (chars name))) name && negb (existsb (N.eqb 58) name) &&
  match classify_pf pfnames (canon_pf pfnames name) with PfNone => true | _ => false end &&
  forallb (nested_arg_ok pfnames lib name) args &&
  match find_tpl lib name with Some t => body_calls_ok pfnames lib name (t_body t) | None => true end.

(** ... and with parameter references inside the arguments of the calls in the body.  The parameters are substituted into
    the argument texts first (and one trailing line break of each argument is dropped); only then is the inner call
    made with these texts - so it is the substituted text that is split at "=" into name and value (the known finding
    c04:substituted-value-with-equals-is-resplit). *)
Fixpoint body_subst_args (ht : argmap) (e : enc) : enc :=
  match e with
  | [] => []
  | A (k :: more) :: r =>
    (match am_get ht (param_key k) with
     | Some v => drop_last_nl v
     | None => match more with
               | d :: _ => d
               | [] => unexpanded_arg [chars (show_key (param_key k))]
               end
     end) ++ body_subst_args ht r
  | T args :: r => T (map (fun a => drop_last_nl (code_subst ht a)) args) :: body_subst_args ht r
  | i :: r => i :: body_subst_args ht r
  end.
Fixpoint body_params_ok (pfnames : list str) (lib : list tpl) (outer : str) (e : enc) : bool :=
  match e with
  | [] => true
  | Ch _ :: r => body_params_ok pfnames lib outer r
  | A [k] :: r => plain k && body_params_ok pfnames lib outer r
  | A [k; d] :: r => plain k && plain d && body_params_ok pfnames lib outer r
  | T (n :: args) :: r =>
      plain n && flat_ok pfnames lib (codes n) [] && forallb flat_body args &&
      negb (str_eqb (codes n) outer) && body_params_ok pfnames lib outer r
  | _ => false
  end.
Definition body_params_result (lib : list tpl) (name : str) (args : list enc) : enc :=
  match find_tpl lib name with
  | None => chars (missing_tpl name)
  | Some t => add_newline (page_result lib (body_subst_args (bind_nested lib args 1 []) (t_body t)))
  end.
Definition body_params_call_ok (pfnames : list str) (lib : list tpl) (name : str) (args : list enc) : bool :=
  str_eqb (codes (strip_i (chars name))) name && negb (existsb (N.eqb 58) name) &&
  match classify_pf pfnames (canon_pf pfnames name) with PfNone => true | _ => false end &&
  forallb (nested_arg_ok pfnames lib name) args &&
  match find_tpl lib name with Some t => body_params_ok pfnames lib name (t_body t) | None => true end.

(** Calls inside the branches of #if.  {{#if: cond | a | b}} where cond is plain and a, b are text and flat calls: the
    chosen branch with every call in it replaced by its result, trimmed (the other branch does not matter). *)
Definition if_calls_ok (pfnames : list str) (lib : list tpl) (cond : enc) (more : list enc) : bool :=
  plain cond && forallb (forallb (flat_item pfnames lib)) more.
Definition if_calls_result (lib : list tpl) (cond : enc) (more : list enc) : enc :=
  add_newline (strip_i (page_result lib (match strip_i cond with [] => nth 1 more [] | _ => nth 0 more [] end))).

(* {{#ifeq: x | y | a | b}} with plain x and y and branches of text and flat calls *)
Definition ifeq_calls_ok (pfnames : list str) (lib : list tpl) (x : enc) (more : list enc) : bool :=
  plain x && plain (nth 0 more []) && forallb (forallb (flat_item pfnames lib)) more.
Definition ifeq_calls_result (lib : list tpl) (x : enc) (more : list enc) : enc :=
  add_newline (strip_i (page_result lib (if mw_equal (codes (strip_i x)) (codes (strip_i (nth 0 more [])))
                                          then nth 1 more [] else nth 2 more []))).

(* {{#switch: x | k1 = v1 | ... }} with plain x and keys and values of text and flat calls: the value of the first case
   whose key equals x, else of the last "#default = v" case, with its calls replaced by their results, trimmed *)
Definition case_calls_ok (pfnames : list str) (lib : list tpl) (kv : enc * enc) : bool :=
  plain (fst kv) && forallb (fun i => negb (is_code 61 i) && negb (is_code 60 i)) (fst kv)
  && forallb (flat_item pfnames lib) (snd kv).
Fixpoint switch_calls_result (lib : list tpl) (val : enc) (cases : list (enc * enc)) (defval : option enc) : enc :=
  match cases with
  | [] => match defval with Some d => strip_i (page_result lib d) | None => [] end
  | (k, v) :: r => if mw_equal (codes (strip_i k)) (codes val) then strip_i (page_result lib v)
                   else switch_calls_result lib val r (if str_eqb (lower (codes (strip_i k))) s_default then Some v else defval)
  end.

(* ... and with calls in the condition as well: the condition is expanded first (as part of the function's name argument),
   and its result - with every call replaced - decides *)
Definition if_cond_calls_ok (pfnames : list str) (lib : list tpl) (cond : enc) (more : list enc) : bool :=
  forallb (flat_item pfnames lib) cond && forallb (forallb (flat_item pfnames lib)) more.
Definition if_cond_calls_result (lib : list tpl) (cond : enc) (more : list enc) : enc :=
  if_calls_result lib (page_result lib cond) more.

(* #ifeq with calls in both operands as well (full expansion): the operands are expanded first, their results - every call
   replaced - are compared *)
Definition ifeq_full_ok (pfnames : list str) (lib : list tpl) (x : enc) (more : list enc) : bool :=
  forallb (flat_item pfnames lib) x && forallb (forallb (flat_item pfnames lib)) more.
Definition ifeq_full_result (lib : list tpl) (x : enc) (more : list enc) : enc :=
  add_newline (strip_i (page_result lib
    (if mw_equal (codes (strip_i (page_result lib x))) (codes (strip_i (page_result lib (nth 0 more []))))
     then nth 1 more [] else nth 2 more []))).
