(** node_expand.to_wikitext on table trees (C19), at the level of the table handlers' tokens: what the per-kind
    emitters of TABLE, TABLE_CAPTION, TABLE_ROW, TABLE_HEADER_CELL and TABLE_CELL write, read as the tokens the
    parser makes of it.  Attributes are written back one name per attribute (to_attrs); a caption or cell with
    attributes gets "attrs |" before its content; every row starts with "|-" and every cell starts a line. *)
From Coq Require Import List Arith Bool.
From WTP Require Import Model.Tables.
Import ListNotations.

Definition attr_text (a : list nat) : list tok := map (fun i => TText (i, true)) a.
Definition attr_section (a : list nat) : list tok := match a with [] => [] | _ => attr_text a ++ [TBar false] end.

Definition emit_list (e : tnode -> list tok) := fix go (cs : list tchild) : list tok :=
  match cs with
  | [] => []
  | CS s :: cs' => map TText s ++ go cs'
  | CN m :: cs' => e m ++ go cs'
  end.
Fixpoint emit (n : tnode) : list tok :=
  match n with
  | TN k a ch =>
    let body := emit_list emit ch in
    match k with
    | KTable => TStart :: attr_text a ++ body ++ [TEnd]
    | KCaption => TCaption :: attr_section a ++ body
    | KRow => TRow :: attr_text a ++ body
    | KHdr => TBang true :: attr_section a ++ body
    | KCell => TBar true :: attr_section a ++ body
    | KBottom => body
    end
  end.

(** the shape of the table trees the parser builds from written tables *)
Definition at_most_one (a : list nat) : bool := match a with [] | [_] => true | _ => false end.
(* content of a caption or cell: non-empty strings and tables, never two strings in a row *)
Definition content_ok (sh : tnode -> bool) := fix go (prev_str : bool) (cs : list tchild) : bool :=
  match cs with
  | [] => true
  | CS s :: cs' => negb prev_str && negb (match s with [] => true | _ => false end) && go true cs'
  | CN (TN KTable a ch) :: cs' => sh (TN KTable a ch) && go false cs'
  | CN _ :: _ => false
  end.
Definition cells_ok (sh : tnode -> bool) := fix go (cs : list tchild) : bool :=
  match cs with
  | [] => true
  | CN (TN KCell a ch) :: cs' | CN (TN KHdr a ch) :: cs' => at_most_one a && content_ok sh false ch && go cs'
  | _ => false
  end.
Definition rows_ok (sh : tnode -> bool) := fix go (cs : list tchild) : bool :=
  match cs with
  | [] => true
  | CN (TN KRow a ch) :: cs' => at_most_one a && match ch with [] => false | _ => cells_ok sh ch end && go cs'
  | _ => false
  end.
Fixpoint shaped (fuel : nat) (n : tnode) : bool :=
  match fuel with
  | O => false
  | S f =>
    match n with
    | TN KTable a ch =>
      at_most_one a
      && match ch with
         | CN (TN KCaption ca cch) :: ch' => at_most_one ca && content_ok (shaped f) false cch && rows_ok (shaped f) ch'
         | _ => rows_ok (shaped f) ch
         end
    | _ => false
    end
  end.
