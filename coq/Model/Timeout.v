(** The time limit of a Lua invocation (C07): a count hook that raises an
    ordinary error once the clock has passed the deadline, pcall frames that
    catch any error, and the two functions the sandbox exposes
    (_lua_clear_timeout_hook, _lua_set_timeout).  Time is counted in hook
    periods (one tick = one firing of the count hook); what a tick costs in
    wall-clock time is runtime behaviour outside the model. *)
From Coq Require Import List Arith Bool.
Import ListNotations.

Inductive prog :=
| Finite (n : nat)            (* straight-line work of n ticks *)
| Loop                        (* while true do end *)
| Seq (a b : prog)
| Forever (p : prog)          (* while true do p end: an iteration whose body took no tick costs one (loop overhead adds up) *)
| Pcall (p : prog)            (* pcall(function() p end) *)
| Nested (p : prog)           (* frame:preprocess("{{#invoke:m|f}}") with f = p: runs under the same hook; its error comes back as text *)
| ClearHook                   (* _lua_clear_timeout_hook() *)
| RaiseLimit (extra : nat).   (* _lua_set_timeout(t) *)

Record st := mkst { now : nat; hook : bool; deadline : nat }.

Inductive res := Ok (s : st) | Timeout (s : st) | Hung.   (* Hung: runs forever with no error *)

(* advancing the clock by n ticks with the hook installed: the hook raises at the first tick beyond the deadline *)
Definition advance (s : st) (n : nat) : res :=
  if hook s && Nat.ltb 0 n && Nat.ltb (deadline s) (now s + n)
  then Timeout (mkst (Nat.max (now s + 1) (deadline s + 1)) (hook s) (deadline s))
  else Ok (mkst (now s + n) (hook s) (deadline s)).

Fixpoint exec (fuel : nat) (p : prog) (s : st) : option res :=    (* None: fuel of the model exhausted *)
  match fuel with
  | O => None
  | S f =>
    match p with
    | Finite n => Some (advance s n)
    | Loop => Some (if hook s then Timeout (mkst (Nat.max (now s + 1) (deadline s + 1)) true (deadline s)) else Hung)
    | Seq a b => match exec f a s with
                 | Some (Ok s') => exec f b s'
                 | r => r
                 end
    | Forever q => match exec f q s with
                   | Some (Ok s') =>
                     if Nat.ltb (now s) (now s') then exec f (Forever q) s'
                     else match advance s' 1 with
                          | Ok s'' => exec f (Forever q) s''
                          | r => Some r
                          end
                   | r => r
                   end
    | Pcall q => match exec f q s with
                 | Some (Timeout s') => Some (Ok s')        (* the error is caught like any other *)
                 | r => r
                 end
    | Nested q => match exec f q s with
                  | Some (Timeout s') => Some (Ok s')       (* turned into the call's in-band error text at the Python boundary *)
                  | r => r
                  end
    | ClearHook => Some (Ok (mkst (now s) false (deadline s)))
    | RaiseLimit e => Some (Ok (mkst (now s) (hook s) (deadline s + e)))
    end
  end.

(* programs that use neither pcall nor the exposed controls *)
Fixpoint plain (p : prog) : bool :=
  match p with
  | Finite _ | Loop => true
  | Seq a b => plain a && plain b
  | Forever q => plain q
  | Pcall _ | Nested _ | ClearHook | RaiseLimit _ => false
  end.
