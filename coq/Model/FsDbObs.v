(** What can be seen of the files after a killed flow (C11's tie between
    Model/FsDb.v and the code): the harness reads, from copies, the database
    file alone, the database with its write-ahead log, the backup and the
    backup's temporary name (harness/implfns.py:_c11_obs), and asks
    (1) is that observation one of the model's crash states of the flow, and
    (2) does the model's reopen of it show what the real reopen showed. *)
From Coq Require Import List Bool.
Import ListNotations.
From WTP Require Import Model.FsDb Proofs.FsDbProofs.

Definition obs_t := (option content * option content * fstate * fstate)%type.
Definition oc_eqb (a b : option content) : bool :=
  match a, b with None, None => true | Some x, Some y => content_eqb x y | _, _ => false end.
Definition f_eqb (a b : fstate) : bool :=
  match a, b with Absent, Absent | Partial, Partial => true | Complete x, Complete y => content_eqb x y | _, _ => false end.
Definition obs (s : fs) : obs_t := (db s, visible s, bak s, tmp s).
Definition obs_eqb (a b : obs_t) : bool :=
  let '(a1, a2, a3, a4) := a in let '(b1, b2, b3, b4) := b in
  oc_eqb a1 b1 && oc_eqb a2 b2 && f_eqb a3 b3 && f_eqb a4 b4.

(* the observation is the model's state after a crash at some point of the flow *)
Definition reach (s : fs) (flow : list step) (o : obs_t) : bool :=
  existsb (fun k => obs_eqb (obs (crash_at s flow k)) o) (seq 0 (S (length flow))).

(* a state with that observation (a committed log is what makes the database read differently from its file) *)
Definition abs (o : obs_t) : fs :=
  let '(d, v, b, t) := o in
  mkfs d (match d, v with Some x, Some y => if content_eqb x y then NoWal else Committed y | _, _ => NoWal end) b t.

Definition after_reopen (o : obs_t) (second_kill : bool) (seen : option content) : bool :=
  if second_kill then existsb (fun j => oc_eqb (result (interrupted_reopens (abs o) [j])) seen) (seq 0 5)
  else oc_eqb (result (abs o)) seen.

Inductive scenario := ScOverride | ScOverwriteOnly | ScBackupOnly | ScRestore | ScOther.
Definition flow_of (sc : scenario) : option (fs * list step) :=
  match sc with
  | ScOverride => Some (s0, override_flow)
  | ScOverwriteOnly => Some (s0, overwrite_flow ++ close_flow)
  | ScBackupOnly => Some (s0, backup_flow ++ close_flow)
  | ScRestore => let s1 := run s0 override_flow in Some (s1, restore_flow s1)
  | ScOther => None
  end.

(* 0 = both hold; 1 = the observation is no crash state of the flow; 2 = the reopen shows something else *)
Definition check_obs (sc : scenario) (o : obs_t) (second_kill : bool) (seen : option content) : nat :=
  match flow_of sc with
  | Some (s, flow) => if reach s flow o then (if after_reopen o second_kill seen then 0 else 2) else 1
  | None => if after_reopen o second_kill seen then 0 else 2
  end.
