(** Parse trees as the parser returns them (C01): the well-formedness
    predicate is an executable Coq function that is evaluated on the real
    trees, and [merge_str_children] models _parser_merge_str_children.
    Strings are abstracted to what well-formedness needs: whether the string
    is empty and whether it contains a placeholder (magic) character. *)
From Coq Require Import List Arith Bool.
Import ListNotations.

Inductive kind :=
| ROOT | LEVEL1 | LEVEL2 | LEVEL3 | LEVEL4 | LEVEL5 | LEVEL6 | ITALIC | BOLD | HLINE | LIST | LIST_ITEM
| PREFORMATTED | PRE | LINK | TEMPLATE | TEMPLATE_ARG | PARSER_FN | URL | TABLE | TABLE_CAPTION | TABLE_ROW
| TABLE_HEADER_CELL | TABLE_CELL | MAGIC_WORD | HTML.

Definition kind_eqb (a b : kind) : bool :=
  match a, b with
  | ROOT, ROOT | LEVEL1, LEVEL1 | LEVEL2, LEVEL2 | LEVEL3, LEVEL3 | LEVEL4, LEVEL4 | LEVEL5, LEVEL5 | LEVEL6, LEVEL6
  | ITALIC, ITALIC | BOLD, BOLD | HLINE, HLINE | LIST, LIST | LIST_ITEM, LIST_ITEM | PREFORMATTED, PREFORMATTED
  | PRE, PRE | LINK, LINK | TEMPLATE, TEMPLATE | TEMPLATE_ARG, TEMPLATE_ARG | PARSER_FN, PARSER_FN | URL, URL
  | TABLE, TABLE | TABLE_CAPTION, TABLE_CAPTION | TABLE_ROW, TABLE_ROW | TABLE_HEADER_CELL, TABLE_HEADER_CELL
  | TABLE_CELL, TABLE_CELL | MAGIC_WORD, MAGIC_WORD | HTML, HTML => true
  | _, _ => false
  end.
Definition is_kind (l : list kind) (k : kind) : bool := existsb (kind_eqb k) l.

Inductive node := Node (k : kind) (sarg_nonempty : bool) (sarg_semicolon : bool) (largs : list (list child))
                       (has_attrs : bool) (children : list child) (definition : option (list child)) (temp_head : bool)
with child := Str (empty magic : bool) | Sub (n : node).

Definition levels := [LEVEL1; LEVEL2; LEVEL3; LEVEL4; LEVEL5; LEVEL6].
Definition have_args := [LINK; TEMPLATE; TEMPLATE_ARG; PARSER_FN; URL].
Definition have_sarg := [LIST; LIST_ITEM; HTML; MAGIC_WORD].
Definition attr_kinds := [HTML; PRE; TABLE; TABLE_CAPTION; TABLE_ROW; TABLE_HEADER_CELL; TABLE_CELL].

(* clause numbers reported on failure *)
Definition c_strings := 1.      (* empty string, adjacent strings or placeholder in a child list *)
Definition c_root := 2.         (* ROOT below the root / root is not ROOT *)
Definition c_list := 3.         (* LIST_ITEM not directly under LIST, or LIST with another child *)
Definition c_table := 4.        (* row/caption not under TABLE, cell not under TABLE_ROW *)
Definition c_args := 5.         (* argument-bearing kind without largs, with sarg or with children *)
Definition c_level := 6.        (* LEVELn without exactly one largs entry *)
Definition c_sarg := 7.         (* LIST/LIST_ITEM/HTML/MAGIC_WORD without sarg or with largs *)
Definition c_plain := 8.        (* other kinds with sarg or largs *)
Definition c_attrs := 9.        (* attrs on a kind that has none *)
Definition c_defn := 10.        (* definition on a non-';' item, or temp_head left *)

Fixpoint strings_ok (l : list child) (prev_str : bool) : bool :=
  match l with
  | [] => true
  | Str e m :: r => negb e && negb m && negb prev_str && strings_ok r true
  | Sub _ :: r => strings_ok r false
  end.

Definition kind_of (c : child) : option kind := match c with Sub (Node k _ _ _ _ _ _ _) => Some k | Str _ _ => None end.

Definition check (b : bool) (clause : nat) : list nat := if b then [] else [clause].

Fixpoint wf_node (fuel : nat) (parent : option kind) (n : node) : list nat :=
  match fuel with
  | O => [0]
  | S f =>
    match n with
    | Node k sarg semi largs attrs ch defn th =>
      let all_lists := ch :: match defn with Some d => [d] | None => [] end ++ largs in
      check (forallb (fun l => strings_ok l false) all_lists) c_strings ++
      check (match parent with None => kind_eqb k ROOT | Some _ => negb (kind_eqb k ROOT) end) c_root ++
      check ((negb (kind_eqb k LIST_ITEM) || match parent with Some LIST => true | _ => false end) &&
             (negb (kind_eqb k LIST) || forallb (fun c => match kind_of c with Some LIST_ITEM => true | _ => false end) ch)) c_list ++
      check ((negb (is_kind [TABLE_ROW; TABLE_CAPTION] k) || match parent with Some TABLE => true | _ => false end) &&
             (negb (is_kind [TABLE_CELL; TABLE_HEADER_CELL] k) || match parent with Some TABLE_ROW => true | _ => false end)) c_table ++
      check (negb (is_kind have_args k) ||
             (negb (match largs with [] => true | _ => false end) && negb sarg &&
              (kind_eqb k LINK || match ch with [] => true | _ => false end))) c_args ++
      check (negb (is_kind levels k) || (Nat.eqb (length largs) 1 && negb sarg)) c_level ++
      check (negb (is_kind have_sarg k) || (sarg && match largs with [] => true | _ => false end)) c_sarg ++
      check (is_kind have_args k || is_kind levels k || is_kind have_sarg k || kind_eqb k ROOT ||
             (negb sarg && match largs with [] => true | _ => false end)) c_plain ++
      check (negb attrs || is_kind attr_kinds k) c_attrs ++
      check (negb th && match defn with Some _ => kind_eqb k LIST_ITEM && semi | None => true end) c_defn ++
      flat_map (fun l => flat_map (fun c => match c with Sub m => wf_node f (Some k) m | Str _ _ => [] end) l) all_lists
    end
  end.

Definition wf (n : node) : list nat := wf_node 600 None n.

(** _parser_merge_str_children over an abstract node type: runs of strings
    are joined, passed through [fin] (finalisation of placeholders) and
    dropped when empty *)
Section Merge.
  Variable A S : Type.
  Variable cat : S -> S -> S.
  Variable empty : S.
  Variable is_empty : S -> bool.
  Variable fin : S -> S.
  Inductive mchild := MStr (s : S) | MNode (n : A).

  Definition flush (acc : option S) : list mchild :=
    match acc with
    | Some s => let s' := fin s in if is_empty s' then [] else [MStr s']
    | None => []
    end.

  Fixpoint merge (l : list mchild) (acc : option S) : list mchild :=
    match l with
    | [] => flush acc
    | MStr s :: r => merge r (Some (match acc with Some a => cat a s | None => s end))
    | MNode n :: r => flush acc ++ MNode n :: merge r None
    end.
  Definition merge_str_children (l : list mchild) : list mchild := merge l None.
End Merge.
