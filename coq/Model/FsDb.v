(** The backup / overwrite / restore file protocol (core.py: backup_db,
    create_db, close_db_conn; dumpparser.py: analyze_and_overwrite_pages) with
    process crashes (C11).  Files: the database, its write-ahead log, the
    backup and the backup's temporary name.  SQLite's guarantees are definitions
    of the model: a commit is atomic, a committed write-ahead log found next to
    a database is replayed when the database is opened, the backup API copies
    the committed content. *)
From Coq Require Import List Bool.
Import ListNotations.

Inductive content := Orig | New.
Definition content_eqb (a b : content) : bool := match a, b with Orig, Orig | New, New => true | _, _ => false end.

Inductive walstate := NoWal | Uncommitted | Committed (c : content).   (* frames of a transaction in progress / committed frames *)
Inductive fstate := Absent | Partial | Complete (c : content).

Record fs := mkfs { db : option content; wal : walstate; bak : fstate; tmp : fstate }.

(* what a reader sees after opening the database file with SQLite *)
Definition visible (s : fs) : option content :=
  match db s with
  | None => None
  | Some c => match wal s with Committed c' => Some c' | _ => Some c end
  end.

(** steps; each is atomic with respect to process death *)
Inductive step :=
| UnlinkBackup | UnlinkTmp | CreateTmp | FillTmp | RenameTmp          (* backup_db *)
| WriteNew | CommitNew | Checkpoint                                   (* overwrite_pages / commit / close *)
| UnlinkDb | UnlinkWal | RenameBackup                                 (* create_db when a backup exists *).

Definition do_step (s : fs) (st : step) : fs :=
  match st with
  | UnlinkBackup => mkfs (db s) (wal s) Absent (tmp s)
  | UnlinkTmp => mkfs (db s) (wal s) (bak s) Absent
  | CreateTmp => mkfs (db s) (wal s) (bak s) Partial
  | FillTmp => mkfs (db s) (wal s) (bak s) (match visible s with Some c => Complete c | None => Partial end)
  | RenameTmp => mkfs (db s) (wal s) (tmp s) Absent
  | WriteNew => mkfs (db s) Uncommitted (bak s) (tmp s)
  | CommitNew => mkfs (db s) (Committed New) (bak s) (tmp s)
  | Checkpoint => mkfs (match wal s with Committed c => Some c | _ => db s end) NoWal (bak s) (tmp s)
  | UnlinkDb => mkfs None (wal s) (bak s) (tmp s)
  | UnlinkWal => mkfs (db s) NoWal (bak s) (tmp s)
  | RenameBackup => mkfs (match bak s with Complete c => Some c | _ => None end) (wal s) Absent (tmp s)
  end.

Definition run (s : fs) (l : list step) : fs := fold_left do_step l s.

(* the flows, as the (repaired) code performs them *)
Definition backup_flow := [UnlinkBackup; UnlinkTmp; CreateTmp; FillTmp; RenameTmp].
Definition overwrite_flow := [WriteNew; CommitNew].
Definition close_flow := [Checkpoint].
Definition override_flow := backup_flow ++ overwrite_flow ++ close_flow.

(* create_db: only when a backup file exists *)
Definition restore_flow (s : fs) : list step :=
  match bak s with Absent => [] | _ => [UnlinkDb; UnlinkWal; RenameBackup] end.

(* opening after a crash: an uncommitted log is discarded by SQLite's recovery *)
Definition recover (s : fs) : fs := mkfs (db s) (match wal s with Uncommitted => NoWal | w => w end) (bak s) (tmp s).

(* a crash after the first k steps *)
Definition crash_at (s : fs) (l : list step) (k : nat) : fs := recover (run s (firstn k l)).

(* a reopen that is itself killed after j steps, then a complete reopen *)
Definition reopen (s : fs) : fs := run s (restore_flow s).
