(** Section nesting (C02): the left-to-right stack machine that has the shape
    of subtitle_start_fn / hline_fn / text handling (parser.py), and the
    right-to-left specification written from the property text ("a section
    absorbs what follows it until a heading of the same or a lower level; a
    horizontal rule is absorbed only by sections of level <= 2").
    Blocks carry an identifier so that trees can be compared with the
    implementation's parse tree.  Plain content is a paragraph (identified
    by a number) or a completed list (Model/Lists.v); both are absorbed by
    every section.  Model/Blocks.v refines the list blocks to list lines. *)
From Coq Require Import List Arith Bool.
From WTP Require Model.Lists.
Import ListNotations.

Inductive payload := PText (id : nat) | PList (n : Lists.lnode).
Inductive blk := H (l id : nat) | T (p : payload) | HR (id : nat).
Inductive item := IT (p : payload) | IHR (id : nat) | ISec (l id : nat) (ch : list item).

(** stack machine *)
Record frame := mk { fl : nat; fid : nat; fch : list item (* reversed *) }.
Definition close (f : frame) : item := ISec (fl f) (fid f) (rev (fch f)).
Definition addc (g : frame) (it : item) : frame := mk (fl g) (fid g) (it :: fch g).

Fixpoint popw (p : frame -> bool) (top : frame) (rest : list frame) : frame * list frame :=
  match rest with
  | [] => (top, [])
  | g :: r => if p top then popw p (addc g (close top)) r else (top, rest)
  end.

(* hline_fn pops every open section that is neither ROOT, LEVEL1 nor LEVEL2 *)
Definition hr_pops (f : frame) : bool := 2 <? fl f.

Definition step (st : frame * list frame) (b : blk) : frame * list frame :=
  let (top, rest) := st in
  match b with
  | T p => (addc top (IT p), rest)
  | H l id => let (t', r') := popw (fun f => l <=? fl f) top rest in (mk l id [], t' :: r')
  | HR id => let (t', r') := popw hr_pops top rest in (addc t' (IHR id), r')
  end.

Definition finish (st : frame * list frame) : list item :=
  let (t, _) := popw (fun _ => true) (fst st) (snd st) in rev (fch t).

Definition root := mk 0 0 [].
Definition parse (d : list blk) : list item := finish (fold_left step d (root, [])).

(** specification: a section absorbs what follows it *)
Definition absorbs (l : nat) (it : item) : bool :=
  match it with
  | IT _ => true
  | IHR _ => l <=? 2
  | ISec l' _ _ => l <? l'
  end.

Fixpoint span {A} (p : A -> bool) (xs : list A) : list A * list A :=
  match xs with
  | [] => ([], [])
  | x :: r => if p x then let (a, b) := span p r in (x :: a, b) else ([], xs)
  end.

Definition place (b : blk) (forest : list item) : list item :=
  match b with
  | T p => IT p :: forest
  | HR id => IHR id :: forest
  | H l id => let (a, rest) := span (absorbs l) forest in ISec l id a :: rest
  end.

Definition spec (d : list blk) : list item := fold_right place [] d.

(* comparison for the correspondence check *)
Definition payload_eqb (a b : payload) : bool :=
  match a, b with
  | PText x, PText y => x =? y
  | PList x, PList y => Lists.lnode_eqb 50 x y
  | _, _ => false
  end.
Fixpoint item_eqb (fuel : nat) (a b : item) : bool :=
  match fuel with
  | O => false
  | S f =>
    match a, b with
    | IT x, IT y => payload_eqb x y
    | IHR x, IHR y => x =? y
    | ISec l i c, ISec l' i' c' =>
        (l =? l') && (i =? i') &&
        (fix go (x y : list item) : bool :=
           match x, y with
           | [], [] => true
           | p :: x', q :: y' => item_eqb f p q && go x' y'
           | _, _ => false
           end) c c'
    | _, _ => false
    end
  end.
Fixpoint items_eqb (fuel : nat) (x y : list item) : bool :=
  match x, y with
  | [], [] => true
  | p :: x', q :: y' => item_eqb fuel p q && items_eqb fuel x' y'
  | _, _ => false
  end.
