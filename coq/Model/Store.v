(** Model of the page store (core.py: add_page, get_page, page_exists,
    get_page_resolve_redirect, get_page_body).  The SQLite table is a list of
    rows with at most one row per (title, namespace id).  No proofs here. *)
From Coq Require Import ZArith.
From WTP Require Import Base.Str.
Open Scope N_scope.

Record row := mkrow {
  r_title : str; r_ns : Z; r_redirect : option str; r_pre : bool;
  r_body : option str; r_model : str }.

Definition store := list row.

(* namespace data: local name, and the lower-cased prefixes (with ':') that
   get_page accepts: name, aliases and the canonical (English) key *)
Record nsinfo := mkns { ns_name : str; ns_prefixes : list str }.
Definition nstable := list (Z * nsinfo).

Fixpoint ns_lookup (tbl : nstable) (ns : Z) : option nsinfo :=
  match tbl with
  | [] => None
  | (i, info) :: r => if Z.eqb i ns then Some info else ns_lookup r ns
  end.

Definition colon : N := 58.
Definition main_prefix : str := [77; 97; 105; 110; 58].   (* "Main:" *)
Definition strip_main (t : str) : str := if startswith main_prefix t then skipn 5 t else t.

Definition key_eqb (t : str) (ns : Z) (r : row) : bool := str_eqb t (r_title r) && Z.eqb ns (r_ns r).

Fixpoint upsert (s : store) (r : row) : store :=
  match s with
  | [] => [r]
  | x :: s' => if key_eqb (r_title r) (r_ns r) x then r :: s' else x :: upsert s' r
  end.

(* title normalisation of add_page *)
Definition add_norm (tbl : nstable) (ns : Z) (title : str) : str :=
  let prefix := if Z.eqb ns 0 then [] else
                  (match ns_lookup tbl ns with Some i => ns_name i | None => [] end) ++ [colon] in
  let t := if negb (Z.eqb ns 0) && negb (startswith prefix title) then prefix ++ title else title in
  strip_main t.

Section WithBody.
  Variable tbl : nstable.
  Variable template_ns : Z.
  Variable to_body : str -> str.     (* _template_to_body, see Model/Include.v *)

  Definition add_page (s : store) (title : str) (ns : Z) (body : option str)
             (redirect : option str) (pre : bool) (model : str) : store :=
    let t := add_norm tbl ns title in
    let body' := if Z.eqb ns template_ns then
                   match redirect, body with
                   | None, Some b => Some (to_body b)
                   | _, _ => body
                   end
                 else body in
    upsert s (mkrow t ns redirect pre body' model).

  (* the two titles get_page queries: the normalised one and the one with the
     first letter after the prefix upper-cased *)
  Definition lookup_titles (title : str) (ns : option Z) : option (str * str) :=
    let t1 := strip_main (replace_c 95 32 title) in
    match t1 with
    | [] => None
    | _ =>
      match ns with
      | None => Some (t1, t1)
      | Some n =>
        if Z.eqb n 0 then Some (t1, t1) else
        match ns_lookup tbl n with
        | None => Some (t1, t1)     (* KeyError in the code; outside the domain *)
        | Some info =>
          let prefix := ns_name info ++ [colon] in
          let t2 := if startswith prefix t1 then t1
                    else if existsb (fun p => startswith p (lower t1)) (ns_prefixes info)
                         then prefix ++ after_first colon t1
                         else prefix ++ t1 in
          let nm := skipn (length prefix) t2 in
          Some (t2, prefix ++ upper_first nm)
        end
      end
    end.

  Definition row_matches (t : str) (ns : option Z) (no_redirect : bool) (r : row) : bool :=
    str_eqb t (r_title r)
    && (match ns with Some n => Z.eqb n (r_ns r) | None => true end)
    && (if no_redirect then match r_redirect r with None => true | Some _ => false end else true).

  Definition get_page (s : store) (title : str) (ns : option Z) (no_redirect : bool) : option row :=
    match lookup_titles title ns with
    | None => None
    | Some (t2, up) =>
      match find (row_matches t2 ns no_redirect) s with
      | Some r => Some r
      | None => if str_eqb up t2 then None else find (row_matches up ns no_redirect) s
      end
    end.

  Definition page_exists (s : store) (title : str) (ns : option Z) : bool :=
    match get_page s title ns false with Some _ => true | None => false end.

  Definition get_page_resolve_redirect (s : store) (title : str) (ns : option Z) : option row :=
    match get_page s title ns false with
    | None => None
    | Some p => match r_redirect p with
                | Some d => get_page s d ns true
                | None => Some p
                end
    end.

  Definition get_page_body (s : store) (title : str) (ns : option Z) : option str :=
    match get_page_resolve_redirect s title ns with
    | None => None
    | Some p => r_body p
    end.

  (** operation sequences for the correspondence check *)
  Inductive sop :=
  | SAdd (title : str) (ns : Z) (body : option str) (redirect : option str) (model : str)
  | SGet (title : str) (ns : option Z) (no_redirect : bool)
  | SExists (title : str) (ns : option Z)
  | SBody (title : str) (ns : option Z)
  | SResolve (title : str) (ns : option Z)
  | SCommit | SReopen.

  Inductive sout :=
  | ORow (r : option (str * Z * option str * option str * str))
  | OBool (b : bool) | OStr (s : option str) | OUnit.

  Definition row_obs (r : option row) : sout :=
    ORow (match r with
          | Some r => Some (r_title r, r_ns r, r_redirect r, r_body r, r_model r)
          | None => None end).

  Definition step (s : store) (o : sop) : store * sout :=
    match o with
    | SAdd t ns b rd m => (add_page s t ns b rd false m, OUnit)
    | SGet t ns nr => (s, row_obs (get_page s t ns nr))
    | SExists t ns => (s, OBool (page_exists s t ns))
    | SBody t ns => (s, OStr (get_page_body s t ns))
    | SResolve t ns => (s, row_obs (get_page_resolve_redirect s t ns))
    | SCommit | SReopen => (s, OUnit)     (* committed content is what a new context reads *)
    end.

  Fixpoint run_ops (s : store) (ops : list sop) : list sout :=
    match ops with
    | [] => []
    | o :: r => let (s', out) := step s o in out :: run_ops s' r
    end.

  Definition sout_eqb (a b : sout) : bool :=
    match a, b with
    | ORow None, ORow None => true
    | ORow (Some (t, n, rd, bd, m)), ORow (Some (t', n', rd', bd', m')) =>
        str_eqb t t' && Z.eqb n n' && opt_str_eqb rd rd' && opt_str_eqb bd bd' && str_eqb m m'
    | OBool x, OBool y => Bool.eqb x y
    | OStr x, OStr y => opt_str_eqb x y
    | OUnit, OUnit => true
    | _, _ => false
    end.

  Fixpoint souts_eqb (a b : list sout) : bool :=
    match a, b with
    | [], [] => true
    | x :: a', y :: b' => sout_eqb x y && souts_eqb a' b'
    | _, _ => false
    end.
End WithBody.
