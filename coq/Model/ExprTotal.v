(** The ladder machine of Model/ExprParse.v with the two ways of not producing a tree kept apart: a syntax error
    (what expr_fn reports in-band) and running out of fuel (which would be non-termination or unbounded recursion).
    [parse3] erases to [ExprParse.parse]; Proofs/ExprTotalProofs.v shows that fuel linear in the number of tokens
    is always enough, so that fuel is only a device and the machine is total. *)
From Coq Require Import List String NArith Bool Arith.
From WTP Require Import Model.ExprParse.
Import ListNotations.
Local Open Scope list_scope.

Inductive res := Ok (a : gast) (r : list tok) | Syntax | OutOfFuel.

Definition atom3 (rec : list tok -> res) (ts : list tok) : res :=
  match ts with
  | TNum n :: r => Ok (GNum n) r
  | TLp :: r => match rec r with Ok a (TRp :: r') => Ok a r' | Ok _ _ => Syntax | e => e end
  | _ => Syntax
  end.

Section Parser.
Variable full : list level.

Fixpoint parse3 (fuel : nat) (lv : list level) (ts : list tok) {struct fuel} : res :=
  match fuel with
  | O => OutOfFuel
  | S f =>
    match lv with
    | [] =>
      match ts with
      | TOp o :: r =>
        if String.eqb o "-" then
          match parse3 f [] r with Ok a r' => Ok (GUn "-" a) r' | e => e end
        else if String.eqb o "+" then atom3 (parse3 f full) r
        else Syntax
      | _ => atom3 (parse3 f full) ts
      end
    | (LBin, ops) :: rest =>
      match parse3 f rest ts with
      | Ok a r => loop3 f ops rest a r
      | e => e
      end
    | (LPre, ops) :: rest =>
      match ts with
      | TOp o :: r =>
        if mem o ops then
          match parse3 f lv r with Ok a r' => Ok (GUn o a) r' | e => e end
        else parse3 f rest ts
      | _ => parse3 f rest ts
      end
    end
  end
with loop3 (fuel : nat) (ops : list string) (rest : list level) (a : gast) (ts : list tok) {struct fuel} : res :=
  match fuel with
  | O => OutOfFuel
  | S f =>
    match ts with
    | TOp o :: r =>
      if mem o ops then
        match parse3 f rest r with
        | Ok b r' => loop3 f ops rest (GBin o a b) r'
        | e => e
        end
      else Ok a ts
    | _ => Ok a ts
    end
  end.

(* enough fuel for [n] tokens with [l] levels still to descend *)
Definition bound (n l : nat) : nat := n * (List.length full + 3) + l + 2.
End Parser.

Definition erase (r : res) : option (gast * list tok) := match r with Ok a r => Some (a, r) | _ => None end.
