(** Wtp.preprocess_text (core.py): one left-to-right regular-expression pass that sets <nowiki> content aside,
    replaces <nowiki/> by a marker and deletes closed comments together with one line break directly before
    them.  The three alternatives are tried in order at every position; none needs backtracking beyond the
    optional line break (a line break not followed by a closed comment is ordinary text).
    Scanners and patterns are those of Model/Body.v. *)
From Coq Require Import List NArith Bool Arith.
From WTP Require Import Base.Str Model.Body.
Import ListNotations.
Open Scope N_scope.

Inductive pitem := PCh (c : N) | PNw (content : str) | PNwEmpty.
Definition s_nowiki : str := [110; 111; 119; 105; 107; 105].

(* a closed comment starting here: the text after it *)
Definition comment_here (s : str) : option str := between (lit s_copen) (lit s_cclose) s.

Definition here (s : str) : option (list pitem * str) :=
  match match_pat (p_open s_nowiki) s with
  | Some r => match cut_pat (p_close s_nowiki) r with
              | Some (content, after) => Some ([PNw content], after)
              | None => None      (* an unclosed start tag; it cannot be a self-closed tag or a comment either *)
              end
  | None =>
    match match_pat (p_selfclose s_nowiki) s with
    | Some after => Some ([PNwEmpty], after)
    | None =>
      match (match s with
             | c :: r => if c =? 10 then comment_here r else comment_here s
             | [] => None
             end) with
      | Some after => Some ([], after)
      | None => None
      end
    end
  end.

Fixpoint pre (skip : nat) (s : str) : list pitem :=
  match s with
  | [] => []
  | c :: r =>
    match skip with
    | S k => pre k r
    | O => match here s with
           | Some (emit, after) => emit ++ pre (length r - length after) r
           | None => PCh c :: pre O r
           end
    end
  end.
Definition preprocess (s : str) : list pitem := pre 0 s.

(* comparison for the correspondence check *)
Definition pitem_eqb (a b : pitem) : bool :=
  match a, b with
  | PCh x, PCh y => x =? y
  | PNw x, PNw y => str_eqb x y
  | PNwEmpty, PNwEmpty => true
  | _, _ => false
  end.
Fixpoint pitems_eqb (a b : list pitem) : bool :=
  match a, b with
  | [], [] => true
  | x :: a', y :: b' => pitem_eqb x y && pitems_eqb a' b'
  | _, _ => false
  end.
