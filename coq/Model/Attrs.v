(** HTML/table attribute strings (C03, C19): a scanner model of parse_attrs
    (parser.py: word boundary, a name of characters other than quotes, slash,
    greater-than, equals, controls and blanks, then optionally blanks, an
    equals sign, blanks and a double-quoted, single-quoted or bare value,
    then blanks; applied with finditer) and of to_attrs (node_expand.py) for
    URL-safe values, on which urllib.parse.quote_plus is the identity. *)
From WTP Require Import Base.Str.
Open Scope N_scope.

Definition in_l (c : N) (l : list N) : bool := existsb (N.eqb c) l.
(* character class, see header *)
Definition name_char (c : N) : bool := negb (in_l c [34; 39; 62; 47; 61] || (c <=? 31) || is_space c).
(* \w on ASCII; other code points are treated as word characters (generators stay ASCII) *)
Definition word_char (c : N) : bool :=
  ((48 <=? c) && (c <=? 57)) || ((65 <=? c) && (c <=? 90)) || ((97 <=? c) && (c <=? 122)) || (c =? 95) || (128 <=? c).
(* character class, see header *)
Definition bare_value_char (c : N) : bool := negb (in_l c [34; 39; 60; 62; 96] || is_space c).

Fixpoint take_while (p : N -> bool) (s : str) : str * str :=
  match s with
  | c :: r => if p c then let (a, b) := take_while p r in (c :: a, b) else ([], s)
  | [] => ([], [])
  end.
Definition drop_spaces (s : str) : str := snd (take_while is_space s).

(* quoted value (q = the quote character): Some (content, rest after the closing quote) *)
Definition quoted (q : N) (s : str) : option (str * str) :=
  match s with
  | c :: r => if c =? q then
                let (content, rest) := take_while (fun x => negb (x =? q)) r in
                match rest with
                | c2 :: rest' => Some (content, rest')      (* c2 is the closing quote *)
                | [] => None
                end
              else None
  | [] => None
  end.

(* one finditer step at the current position (prev = character before it):
   Some (name, value, rest, last consumed char) when the regex matches here *)
Definition match_here (prev : option N) (s : str) : option (str * str * str * N) :=
  match s with
  | [] => None
  | c :: _ =>
    let pw := match prev with Some p => word_char p | None => false end in
    if name_char c && xorb pw (word_char c) then
      let (name, rest) := take_while name_char s in
      let last1 := last name c in
      let (sp1, rest1) := take_while is_space rest in
      let last2 := last sp1 last1 in
      match rest1 with
      | e :: r2 =>
        if e =? 61 then
          let (sp2, r3) := take_while is_space r2 in
          let last4 := last sp2 61 in
          let '(value, r4, last5) :=
            match quoted 34 r3 with
            | Some (v, r) => (v, r, 34)
            | None => match quoted 39 r3 with
                      | Some (v, r) => (v, r, 39)
                      | None => let (v, r) := take_while bare_value_char r3 in (v, r, last v last4)
                      end
            end in
          let (sp3, r5) := take_while is_space r4 in
          Some (name, value, r5, last sp3 last5)
        else Some (name, [], rest1, last2)
      | [] => Some (name, [], rest1, last2)
      end
    else None
  end.

Fixpoint scan_attrs (fuel : nat) (prev : option N) (s : str) : list (str * str) :=
  match fuel with
  | O => []
  | S f =>
    match s with
    | [] => []
    | c :: r =>
      match match_here prev s with
      | Some (name, value, rest, lastc) => (name, value) :: scan_attrs f (Some lastc) rest
      | None => scan_attrs f (Some c) r
      end
    end
  end.

(* node.attrs is a dict: a later occurrence of a name overwrites the value but keeps the first position *)
Fixpoint dict_set (d : list (str * str)) (k v : str) : list (str * str) :=
  match d with
  | [] => [(k, v)]
  | (k', v') :: r => if str_eqb k k' then (k', v) :: r else (k', v') :: dict_set r k v
  end.
Definition parse_attrs (s : str) : list (str * str) :=
  fold_left (fun d kv => dict_set d (fst kv) (snd kv)) (scan_attrs (S (length s)) None s) [].

(* to_attrs for URL-safe values *)
Definition render_attr (kv : str * str) : str :=
  match snd kv with [] => fst kv | v => fst kv ++ [61; 34] ++ v ++ [34] end.
Fixpoint join_sp (l : list str) : str :=
  match l with [] => [] | [x] => x | x :: r => x ++ 32 :: join_sp r end.
Definition to_attrs (m : list (str * str)) : str := join_sp (map render_attr m).

Fixpoint attrs_eqb (a b : list (str * str)) : bool :=
  match a, b with
  | [], [] => true
  | (k, v) :: a', (k', v') :: b' => str_eqb k k' && str_eqb v v' && attrs_eqb a' b'
  | _, _ => false
  end.
