#!/bin/bash
# Offline build of the whole Coq development (full .vo build, never -vos).
set -e
cd "$(dirname "$0")"
export PYTHONPATH=/repo/src PYTHONHASHSEED=0 PYTHONDONTWRITEBYTECODE=1
mkdir -p build evidence replays
/venv/bin/python harness/regen.py all
/venv/bin/python - <<'PY'
import sys; sys.path.insert(0, "harness")
import lib
rc, out = lib.coq_make(None, timeout=3000)
print(out[-3000:])
sys.exit(rc)
PY
