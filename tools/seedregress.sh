#!/bin/bash
# tools/seedregress.sh [seed dirs...]: runs every recorded seeded change against the current checks, in scratch copies of
# /verif and /repo (so neither is disturbed), and prints one line per seed: caught / MISSED / patch-does-not-apply.
set -u
V=/tmp/vreg_$$; R=/tmp/rreg_$$
seeds=${@:-$(ls /verif/seeded)}
rsync -a --exclude replays --exclude .git /verif/ $V/
git -C /repo worktree add -q --detach $R HEAD || exit 2
trap 'git -C /repo worktree remove --force $R; rm -rf $V' EXIT
for s in $seeds; do
  p=$(/venv/bin/python -c "import json;print(json.load(open('/verif/seeded/$s/meta.json'))['property'])")
  if ! git -C $R apply /verif/seeded/$s/patch.diff 2>/dev/null; then echo "$s $p patch-does-not-apply"; continue; fi
  out=$(cd $V && VERIF_REPO=$R timeout 1500 ./check $p --tier quick 2>&1)
  n=$(echo "$out" | grep -c '^VIOLATION')
  nf=$(echo "$out" | grep '^VIOLATION' | grep -vc 'no-failing-input-found')
  if [ "$n" -gt 0 ]; then echo "$s $p caught violations=$n with-input=$nf"; else echo "$s $p MISSED"; fi
  git -C $R checkout -q -- . ; git -C $R clean -fdq
done
