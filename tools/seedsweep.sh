#!/bin/bash
# tools/seedsweep.sh <seed> [ids...]: quick tier of the given checks (default: all) under VERIF_SEED=<seed>, in scratch
# copies of /verif and /repo (evidence and replays of /verif are not touched); one line per property.
set -u
seed=$1; shift
V=/tmp/vsw_$$; R=/tmp/rsw_$$
ids=${@:-$(/venv/bin/python -c "import json;print(' '.join(c['property_id'] for c in json.load(open('/verif/MANIFEST.json'))['checks']))")}
rsync -a --exclude replays --exclude .git /verif/ $V/
git -C /repo worktree add -q --detach $R HEAD || exit 2
trap 'git -C /repo worktree remove --force $R; rm -rf $V' EXIT
for p in $ids; do
  out=$(cd $V && VERIF_SEED=$seed VERIF_REPO=$R timeout 3000 ./check $p --tier quick 2>&1)
  echo "seed=$seed $p $(echo "$out" | grep -c '^VIOLATION') violations; $(echo "$out" | tail -1)"
  echo "$out" | grep '^VIOLATION' | head -3
  mkdir -p /tmp/sweep_replays/$seed; cp -r $V/replays/$p /tmp/sweep_replays/$seed/ 2>/dev/null
done
