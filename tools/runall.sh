#!/bin/bash
# Runs every claimed check (quick by default) and prints a one-line summary per property.
tier=${1:-quick}
cd "$(dirname "$0")/.."
ids=$(/venv/bin/python -c "import json;print(' '.join(c['property_id'] for c in json.load(open('MANIFEST.json'))['checks']))")
mkdir -p build/logs
for p in $ids; do
  ( ./check $p --tier $tier > build/logs/$p.$tier.log 2>&1; echo "$p rc=$? $(grep -cE '^VIOLATION' build/logs/$p.$tier.log) violations; $(tail -1 build/logs/$p.$tier.log)" ) &
  while [ $(jobs -r | wc -l) -ge 3 ]; do sleep 1; done
done
wait
