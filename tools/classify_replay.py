#!/venv/bin/python
"""tools/classify_replay.py <replay.json> [label]: re-run the C04/C13 oracle and its known-deviation classification on the
library/page/options of a replay file (the ASTs are taken from what the implementation parsed)."""
import json, sys
sys.path.insert(0, "/verif/harness")
import lib, c04


class FakeRun:
    def __init__(self):
        self.histogram, self.extra, self.evaluations, self.tier = {}, {}, 0, "quick"

    def count(self, *a, **k):
        self.evaluations += 1

    def property_failure(self, sig, what, case):
        print("PROPERTY-FAILURE", sig, "|", what[:300])

    def correspondence_break(self, what, case=None, **k):
        print("CORRESPONDENCE-BREAK", what, str(k)[:300])


d = json.load(open(sys.argv[1]))
case = d.get("case") or d["breaks"][0]["case"]
r = lib.run_impl("expandlib", [{k: case[k] for k in ("lib", "page", "opts", "title")}])[0]
c = dict(case)
c["page_ast"] = r["page_ast"]
c["lib_ast"] = []
for (name, ast, pre, stored) in r["lib_ast"]:
    if stored[:1] in ("#", "*", ";", ":") and ast[:1] == [10]:
        ast = ast[1:]
    c["lib_ast"].append([name, ast, pre])
c["wraps"] = [("", "")] * len(c["lib_ast"])
run = FakeRun()
orig = lib.coq_eval_failing
lib.coq_eval_failing = lambda *a, **k: ([], [])
c04.run_cases(run, [c], sys.argv[2] if len(sys.argv) > 2 else "sel")
print("histogram", run.histogram)
if len(sys.argv) > 3:
    import gen_wt as G
    lib_for_ref = [[n, c04.expected_body_ast(c, j), p] for j, (n, _, p) in enumerate(c["lib_ast"])]
    for kl, sw, nm in c04.kl_sw_variants(True):
        r3 = c04.mkref(lib_for_ref, kl, sw, c["opts"], leak=True)
        o3 = c04.unquote_marks(r3.finish(r3.ev(c["page_ast"], None)), r["out"])
        print("LEAK", kl, sw, r3.unsupported, repr(o3[:400]))
    print("IMPL", repr(r["out"][:400]))
