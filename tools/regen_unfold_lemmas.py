"""Rewrites the two unfolding lemmas of coq/Proofs/FlatCallProofs.v (expand_T_S, expand_pf_S) from the text of
coq/Model/Expand.v: their right-hand sides are the bodies of expand_T / expand_pf under '| S f =>', proved by reflexivity,
so they must be refreshed when the model's text changes."""
import re
from pathlib import Path
V = Path(__file__).resolve().parent.parent
m = (V / "coq/Model/Expand.v").read_text()
p = V / "coq/Proofs/FlatCallProofs.v"
s = p.read_text()


def body(start, end):
    txt = m[m.index(start):m.index(end)]
    i = txt.index("    | S f =>\n") + len("    | S f =>\n")
    b = txt[i:].rstrip()
    if b.endswith("end."):
        b = b[:-1]
    assert b.endswith("end")
    return b[:-3].rstrip()


for name, sig, start, end in (
        ("expand_T_S", "f stk expand_all args : expand_T (S f) stk expand_all args =", "  with expand_T (fuel : nat)",
         "  (* the argument dictionary of a template call *)"),
        ("expand_pf_S", "f stk c fn args : expand_pf (S f) stk c fn args =", "  with expand_pf (fuel : nat)", "  with switch_loop (fuel : nat)"),
        ("build_args_S", "f stk args num ht : build_args (S f) stk args num ht =", "  with build_args (fuel : nat)",
         "  (* expand_parserfn + call_parser_function"),
        ("switch_loop_S", "f stk val cases match_next next_default defval lastv :\n    switch_loop (S f) stk val cases match_next next_default defval lastv =",
         "  with switch_loop (fuel : nat)", "End Expander.")):
    pat = re.compile(r"(  Lemma %s %s\n).*?(\.\n  Proof\. reflexivity\. Qed\.)" % (name, re.escape(sig)), re.S)
    assert pat.search(s), name
    s = pat.sub(lambda mm: mm.group(1) + body(start, end) + mm.group(2), s, count=1)
p.write_text(s)
print("ok")
