"""Refreshes the generated blocks of DESIGN.md (section 9.4 fix list and known findings, 9.6 seed list) from
known_findings.json, /repo's git log and seeded/*/meta.json.  Blocks are delimited by <!-- gen:NAME --> ... <!-- /gen:NAME -->."""
import json
import re
import subprocess
from pathlib import Path

V = Path(__file__).resolve().parent.parent


def block(text, name, body):
    pat = re.compile(r"(<!-- gen:%s -->\n).*?(<!-- /gen:%s -->)" % (name, name), re.S)
    assert pat.search(text), name
    return pat.sub(lambda m: m.group(1) + body + "\n" + m.group(2), text)


def main():
    kf = json.load(open(V / "known_findings.json"))
    log = subprocess.run(["git", "-C", "/repo", "log", "--format=%h %s"], capture_output=True, text=True).stdout.splitlines()
    fixes = [l for l in reversed(log) if l.split(" ", 1)[1].startswith("fix:")]
    fixes_md = "\n".join("* `%s`" % l for l in fixes)
    fixed_md = "\n".join("* %s" % f for f in kf["fixed"])
    find_md = "\n".join("* **%s** `%s` — %s" % (f["property"], f["signature"], f["what"]) for f in kf["findings"])
    seeds = []
    for d in sorted((V / "seeded").iterdir()):
        m = json.load(open(d / "meta.json"))
        seeds.append("* **%s** — %s  \n  *needs*: %s  \n  *caught by*: %s" % (
            d.name, m.get("summary", "")[:420], m.get("needs", "")[:320], m.get("detected_by", "?")))
    t = (V / "DESIGN.md").read_text()
    t = block(t, "fixes", fixes_md + "\n\nWhat each repaired (the `fixed:` records of `known_findings.json`):\n\n" + fixed_md)
    t = block(t, "findings", find_md)
    t = block(t, "seeds", "\n".join(seeds))
    (V / "DESIGN.md").write_text(t)


if __name__ == "__main__":
    main()
