"""Runs the repo's pinned test suite and compares with /root/.vp/BASELINE.json stable_pass."""
import json, subprocess, sys, tempfile, xml.etree.ElementTree as ET, os
b = json.load(open("/root/.vp/BASELINE.json"))
out = tempfile.mktemp(suffix=".xml")
env = dict(os.environ); env.pop("WIKITEXTPROCESSOR_VERIF", None)
subprocess.run("cd /repo && /venv/bin/python -m pytest -ra -q -p no:cacheprovider --timeout=900 "
               "--continue-on-collection-errors --junitxml=" + out + " -n 8 2>/dev/null || "
               "cd /repo && /venv/bin/python -m pytest -ra -q -p no:cacheprovider --timeout=900 "
               "--continue-on-collection-errors --junitxml=" + out, shell=True, env=env,
               stdout=subprocess.DEVNULL, stderr=subprocess.DEVNULL)
passed = set()
for tc in ET.parse(out).getroot().iter("testcase"):
    if not any(c.tag in ("failure", "error", "skipped") for c in tc):
        passed.add(tc.get("classname") + "::" + tc.get("name"))
os.unlink(out)
want = set(b["stable_pass"])
missing = sorted(want - passed)
print("stable_pass:", len(want), "passed now:", len(passed & want), "missing:", missing[:20])
sys.exit(1 if missing else 0)
