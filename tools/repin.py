"""Rewrites the PINS block at the end of every coq/Properties/Cxx.v with the digests of the current /repo source
(translate/pins.py).  Run deliberately: after a change of /repo (a fix: commit) has been carried over into the models."""
import re
import sys
from pathlib import Path

V = Path(__file__).resolve().parent.parent
sys.path.insert(0, str(V / "translate"))
sys.path.insert(0, str(V / "harness"))
import pins  # noqa: E402

BEGIN, END = "(* BEGIN PINS (tools/repin.py) *)", "(* END PINS *)"


def block(pid, names, d):
    lhs = ", ".join("pin_" + n for n in names)
    rhs = ", ".join('"%s"' % d[n] for n in names)
    if len(names) > 1:
        lhs, rhs = "(" + lhs + ")", "(" + rhs + ")"
    funcs = ", ".join(("%s:%s" % (pins.PY_PINS.get(n) or pins.LUA_PINS.get(n))) for n in names)
    return "\n".join([
        BEGIN,
        "From WTP Require Import Gen.GenPins.",
        "Module Pins.",
        "Import String.",
        "(* The models of this property were transcribed from: %s." % funcs,
        "   Gen/GenPins.v holds the digests of these functions in the current source (translate/pins.py: syntax tree without",
        "   docstrings, comments and layout).  A different digest means that the model is no longer known to describe the",
        "   code; the check then reports the broken tie and looks for a failing input. *)",
        "Theorem %s_models_describe_the_current_source :" % pid.lower(),
        "  %s = %s%%string." % (lhs, rhs),
        "Proof. reflexivity. Qed.",
        "Print Assumptions %s_models_describe_the_current_source." % pid.lower(),
        "End Pins.",
        END, ""])


def main():
    d = pins.digests()
    for pid, names in pins.BY_PROPERTY.items():
        p = V / "coq" / "Properties" / (pid + ".v")
        s = p.read_text()
        if BEGIN in s:
            s = s[:s.index(BEGIN)].rstrip("\n") + "\n"
        s = s.rstrip("\n") + "\n\n" + block(pid, names, d)
        p.write_text(s)
        print(pid, len(names), "pins")


if __name__ == "__main__":
    main()
