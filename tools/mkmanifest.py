"""Writes /verif/MANIFEST.json from the table below (keeps it valid at all times)."""
import json
from pathlib import Path

V = Path(__file__).resolve().parent.parent
ALL = ["C%02d" % i for i in range(1, 21)]

TRUST = ("Coq 8.16.1 kernel (+ vm_compute; no native_compute); axioms: none; hand-written Gallina model tied to /repo by "
         "a per-run correspondence check (model evaluated inside Coq on the cases the implementation ran) and a direct "
         "property oracle on the implementation, plus per-run digests of the functions the model transcribes "
         "(translate/pins.py: a changed function the inputs do not expose is reported as a broken tie); harness and "
         "generators trusted. ")

CHECKS = {
    "C17": dict(
        technique="Coq proof (worklist = least fixed point, by invariant + measure) + model/impl correspondence",
        text="Theorems c17_closure_exact / c17_redirects_exact: for every inclusion graph (cyclic or not), flag set and "
             "functional redirect relation the modelled worklist terminates with an empty stack and marks exactly the closure "
             "plus one-hop redirects. The model is tied to core.py:analyze_templates by running both on exhaustive small and "
             "random graphs and comparing marked sets inside Coq; the property itself is also evaluated directly on the real code. "
             "c17_reanalysis_is_analysis_from_scratch / c17_analysis_is_idempotent: a second analysis seeded with the marks found "
             "in the store plus new flags, over a grown inclusion graph, marks exactly what one analysis of everything marks.",
        note=TRUST + "SQLite UPDATE..FROM semantics exercised, not modelled; classifier returns exact stored names.",
        ref="DESIGN.md section 4 C17"),
    "C10": dict(
        technique="Coq proof (store refines the history of adds; spelling lemmas) + op-sequence correspondence",
        text="Theorems c10_lookup_is_latest_add (for every history of add_page calls a lookup returns the most recent add of the "
             "normalised key, else of the first-letter-upper-cased key), c10_read_your_write, c10_other_pages_untouched and "
             "c10_spellings (prefix given/omitted/aliased/other case and underscores normalise to the same candidates), all "
             "unbounded. Model tied to core.py by random and short operation sequences (add/overwrite/redirect/get/exists/body/"
             "resolve/commit/reopen) whose every result is compared with the model inside Coq and with an independent oracle.",
        note=TRUST + "SQLite upsert/UNION ALL..LIMIT 1 order/commit visibility exercised, not modelled; ASCII case mapping only; "
             "namespace table regenerated from data/en/namespaces.json per run.",
        ref="DESIGN.md section 4 C10"),
    "C14": dict(
        technique="Coq proof (three argument views equal by induction over the argument list) + three-view correspondence",
        text="Theorem c14_views_agree: for every list of well-formed plain-text arguments the models of template_parameters, the "
             "expander's argument map and make_frame/frame_args_index yield the same association list (int keys for positional "
             "and positive numeric names, named values trimmed, positional verbatim). Models tied to the three real code paths "
             "(parse, expand with template_fn, #invoke of an echo module) on exhaustive short and random argument lists.",
        note=TRUST + "regex engine, lupa and the Lua VM exercised not modelled; mw.ustring stubbed; plain-text arguments only.",
        ref="DESIGN.md section 4 C14"),
    "C16": dict(
        technique="Coq proof (sound balance checker) over a skeleton regenerated from core.py each run + dynamic oracle",
        text="Theorems c16_check_sound (a summary-based balance check is sound for every terminating execution of a "
             "nondeterministic push/pop/call/loop/branch skeleton, including recursion), c16_skeleton_checks (the skeleton "
             "that translate/skeleton.py extracts from Wtp.expand and its nested functions on this run passes the check) and "
             "c16_expand_balanced (hence every returning call restores the depth). Message-record keys/context, start_page "
             "clearing, flat pages never 'too deep' and the external callees are checked by running the real context on "
             "generated pages x option sets x repeat counts.",
        note=TRUST + "translator is trusted (fail-closed); external callees (call_lua_sandbox, call_parser_function, hooks) "
             "assumed balanced in the proof and exercised dynamically; exceptions escaping expand() are outside the property.",
        ref="DESIGN.md section 4 C16"),
    "C18": dict(
        technique="Coq proofs (pad/sub/plural specs; formatnum round trip; #expr ladder parser inverts the printer for all trees; ladder regenerated from parserfns.py equals the documented one) + value correspondence against Coq reference models",
        text="Theorems: c18_ladder_is_documented (the #expr precedence ladder extracted from expr_fn on this run equals the "
             "documented ladder, all binary levels left-associative), c18_padleft/c18_padright/c18_pad_cyclic (exact result and "
             "length for all values, counts and pad strings), c18_sub_*, c18_plural_selects_by_one, and c18_formatnum_roundtrip(_shipped) + "
             "c18_all_shipped_locales_ok (formatnum|R inverts formatnum for every numeral of any length in every locale "
             "of the regenerated Gen/GenLocales.v). Every listed string "
             "function, plural, #expr on integer ASTs (minimal vs full parentheses, random spacing/case, compared with the Coq "
             "reference evaluator) and formatnum / formatnum|R on every shipped locale are compared with the Coq models and "
             "with references written from the documentation. c18_expr_parser_inverts_printer(_any_ladder) + c18_expr_ladder_unambiguous: the ladder machine of "
             "Model/ExprParse.v (generic_binary loop per binary level, parse_unary_fn per prefix level, terminal) over the "
             "regenerated ladder parses the minimally parenthesised printing of EVERY expression tree back to that tree "
             "(precedence = ladder order, left associativity); the machine is compared with expr_fn on generated trees "
             "(printer, read-back, value) and on token soups (accept/reject and value). String functions "
             "(Proofs/StringFnsProofs.v): c18_pos_is_the_first_occurrence / c18_pos_absent_means_no_occurrence / "
             "c18_rpos_is_the_last_occurrence (first and last occurrence at or after the offset, for every needle, string and "
             "offset), c18_explode_pieces_join_back (the pieces joined with the delimiter are the string), "
             "c18_replace_is_split_then_join (#replace = split at the old text, join with the new). PARTIAL: float arithmetic "
             "and the tokenizer regex are outside the model.",
        note=TRUST + "translators ladder.py/locales.py trusted (fail-closed); floats, urllib quoting, non-ASCII case mapping "
             "not modelled; negative operands of mod and inexact division are outside the reference evaluator.",
        ref="DESIGN.md section 4 C18"),
    "C04": dict(
        technique="Coq model of the expander on encoded text + refinement theorem to the fuel-free transclusion rule on flat calls + clause theorems; output correspondence and reference-semantics oracle",
        text="Model/Expand.v transcribes expand_args/expand_recurse/argument binding/#if/#ifeq/#switch/add_newline/finalize on "
             "the cookie representation and is compared, output for output, with Wtp.expand on generated acyclic libraries and "
             "pages (the encoded ASTs are read back from the implementation's cookie table). Proved for all inputs: the argument "
             "map is last-binding-wins, plain text is unchanged by both passes and finalisation, the automatic newline rule; "
             "c04_includable_part: Model/Body.v (_template_to_body as six scanner passes, compared with the implementation on "
             "generated tag soups incl. case/blank variants and unclosed tags) yields the documented includable part for every "
             "arrangement of comments, noinclude, includeonly and onlyinclude elements with bracket-free texts. "
             "c04_flat_calls_follow_the_transclusion_rule (Model/FlatCall.v, Proofs/FlatCallProofs.v): for every library and "
             "every call with plain name and arguments to a template of text and parameter references with plain names and "
             "defaults (or to a missing template), for all sufficiently large fuel, the whole model - name expansion, parser-"
             "function and loop detection, argument dictionary, both passes, newline rules, finalisation - returns exactly the "
             "documented rule (unnamed arguments numbered and verbatim, named trimmed, last binding wins, defaults, literal "
             "undefined parameters, link for a missing template, newline before a block marker), stated without fuel or "
             "expansion path; c04_flat_rule_is_mediawikis_without_trailing_line_breaks and ..._refuted pin the known "
             "trailing-newline deviation as the only gap on that fragment; c04_if_with_plain_arguments, c04_ifeq_with_plain_arguments, "
             "c04_switch_with_plain_keyed_cases: under every expansion path #if gives the second argument when the first is not "
             "blank, else the third; #ifeq the third when the first two are equal (numerically when both are numbers, "
             "ParserFns.mw_equal), else the fourth; #switch with key=value cases the value of the first case whose key equals "
             "the first argument, else the last #default value, else nothing; all trimmed; all four rules are also compared "
             "directly with Wtp.expand on generated calls. "
             "c04_calls_in_arguments_are_expanded_in_the_callers_frame: a call whose arguments hold text and flat calls to other "
             "templates binds to each parameter the argument with every call in it replaced by that call's result, computed "
             "where the argument stands, and instantiates the outer body with these values (compared with Wtp.expand on 400 "
             "generated nested calls per quick run). "
             "c04_calls_in_a_template_body_are_expanded_after_substitution: a template whose body holds calls to other templates "
             "with plain names and arguments gives the body with its parameters substituted and every call replaced by its "
             "result (one trailing line break of each such argument dropped: the known finding), also compared with Wtp.expand "
             "on 400 generated cases per quick run; c04_parameters_in_the_arguments_of_body_calls extends it to calls in the body "
             "whose arguments hold parameter references: the parameters are written into the argument texts first and the calls "
             "are made with these texts - the code's order, which is why a value containing '=' re-splits the argument (the "
             "known finding; the rule proved is the rule the code follows, stated without fuel or path); "
             "c04_two_levels_of_calls combines the two (calls in the arguments of a call whose "
             "template has calls in its body), which is what the nested correspondence runs on. "
             "PARTIAL: beyond these fragments (nesting deeper than two levels, a template inside its own arguments, parser "
             "functions with calls in their arguments, links) equality with the independent MediaWiki reference semantics is decided per run by harness/gen_wt.py:Ref, "
             "not by a refinement theorem.",
        note=TRUST + "regex-based _encode/preprocess_text/_template_to_body are glue under the diff; ASCII whitespace; "
             "parser function name table regenerated from the live module.",
        ref="DESIGN.md section 4 C04"),
    "C13": dict(
        technique="Coq model of selective expansion and hooks + selection-rule theorems; output/hook-log correspondence",
        text="Model/Expand.v includes check_template_need_expand, re-emission of unselected calls, the expand_parserfns "
             "switch and template_fn/post_template_fn; it is compared with Wtp.expand on generated libraries x selections x "
             "switches x hook tables (outputs inside Coq; hook logs against the reference semantics). Proved: the selection "
             "rule as a single formula and its corollaries; c13_nothing_selected_identity: with pre_expand, every page of text, "
             "links and calls that are left alone (plain names, no colon, not a parser function, not selected) comes back "
             "exactly as written, every call re-emitted with the same name and arguments (Proofs/IdentityProofs.v, any "
             "nesting); c13_template_fn_result_replaces_the_call (the string template_fn returns is the expansion of the call, "
             "modulo the automatic line break and post_template_fn); c13_flat_pages_expand_exactly_the_selected_calls "
             "(Proofs/FlatCallProofs.v): on C04's flat fragment, for every library, selection and page of text and calls, with "
             "or without pre_expand, the model returns the page in which exactly the selected calls are replaced by the "
             "transclusion rule's result and every other call stands as written - compared directly with Wtp.expand on "
             "generated pages and selections. PARTIAL: 'exactly once per call' and the argument map the "
             "hooks receive, parser-function re-emission and template arguments/nowiki on the page are decided per run.",
        note=TRUST + "regex-based _encode/_finalize_expand glue under the diff; hooks are harness-supplied tables.",
        ref="DESIGN.md section 4 C13"),
    "C15": dict(
        technique="Coq proofs (entity round trip and inertness for the regenerated _nowiki_map; N cookies never inspected) + oracle on expand/parse",
        text="Theorems for every content string: c15_quote_roundtrip (decoding the entities of the map read from the current "
             "source gives the content back when it has no '&'), c15_quote_inert (no markup character survives quoting), "
             "c15_expander_never_inspects_nowiki and c15_finalize_prints_quoted (the expander model passes N cookies through "
             "both passes untouched and prints exactly the quoted content), c15_preprocess_sets_nowiki_aside_and_deletes_comments "
             "(Model/Preprocess.v = preprocess_text, compared with the implementation on tag soups: for every arrangement of "
             "plain text, closed comments, nowiki elements and <nowiki/> the nowiki content is set aside as written and each "
             "comment disappears with one line break before it), c15_text_comments_and_nowiki_end_to_end (the three models chained: a "
             "page of markup-free text, comments and nowiki elements comes out with every nowiki content entity-quoted, the "
             "comments gone and the rest as written, in any library and under any options; the chain is compared inside Coq with "
             "expand() on such pages). The real expand()/parse() are run on nowiki "
             "bodies over a 58-token alphabet in 9 embedding contexts (decoded output = content, no markup left, hooks never "
             "called, single text node) and on documents with comments vs their comment-free form.",
        note=TRUST + "_encode and the tokenizer are exercised, not modelled (on text without brackets and braces _encode has nothing to "
             "do: that is the encoding the chained theorem uses); html.unescape on the implementation side.",
        ref="DESIGN.md section 4 C15"),
    "C05": dict(
        technique="Coq proofs (depth limit in-band; loop detector sound and complete for repeated suffixes) + model correspondence on cyclic libraries + totality sweep of every parser function",
        text="Theorems c05_depth_limit_inband, c05_loop_detector_sound and c05_loop_detector_complete on the expander model "
             "(the detector fires exactly on stacks ending in >=2 copies of a non-ARGVAL-led pattern). The model is compared "
             "with Wtp.expand on arbitrary (cyclic) call graphs; a corpus of ten direct cycle shapes must return with the "
             "error element and a recorded message; every name in PARSER_FUNCTIONS x argument vectors from a 60-entry pool x "
             "9 page titles, #expr token soups and nesting ladders to depth 150 must return a str without raising, under a "
             "wall-clock bound; pages with several calls side by side. Theorems c05_expr_parser_never_runs_out_of_fuel, "
             "c05_expr_parser_answer_is_stable, c05_expr_total_machine_is_the_compared_machine, "
             "c05_expr_parser_total_for_the_current_ladder: the recursive-descent parser of #expr, as the ladder machine that is "
             "compared with expr_fn on every run (over the ladder regenerated from the source), ends on EVERY token list in a tree "
             "or a syntax error with a nesting depth of at most 12n+11 calls for n tokens, and more fuel never changes the answer. "
             "PARTIAL: no bound on total work of expand() is proved (exponential worst case: known finding); totality of the "
             "other parser functions is by exhaustive-over-names execution, not by a semantic model.",
        note=TRUST + "time bound enforced by SIGALRM; the two network-backed functions (#property, #statements) are excluded.",
        ref="DESIGN.md section 4 C05"),
    "C08": dict(
        technique="Coq proofs (frame arguments = expander's binding; expandTemplate binds the given table; a flat call gives the page-level result under every expansion path) + metamorphic oracle on the real frame API",
        text="Theorems c08_frame_args_are_call_args (for all well-formed argument lists the make_frame/frame_args_index model "
             "equals the expander's argument map: positional from 1 verbatim, named trimmed) and "
             "c08_expand_template_binds_given_table (the 'k=v' arguments expandTemplate builds are bound back to exactly the "
             "given table); c08_expand_template_is_the_call_on_the_page: on the flat fragment of C04 (plain name and arguments, a "
             "template of text and parameter references, or none) the expander model gives, under EVERY expansion path shorter "
             "than the depth limit in which the template is not looping (the path inside a Lua callback included), exactly what "
             "the same call gives written on the page - the transclusion rule's result; "
             "c08_preprocess_is_expansion_on_the_page: text and flat calls expanded under any such path (frame:preprocess) give "
             "what they give on the page. "
             "frame.args, getParent (title and arguments through wrapper depth 1-2), preprocess, expandTemplate "
             "and callParserFunction are each compared on the real code with the expansion of the equivalent wikitext on the "
             "same context; frame.args also with the Coq model on the expanded argument texts.",
        note=TRUST + "preprocess/callParserFunction/parent equivalences are decided by execution (they share the expander), "
             "not by theorem; lupa, the Lua VM and sandbox files exercised not modelled; mw.ustring stubbed.",
        ref="DESIGN.md section 4 C08"),
    "C02": dict(
        technique="Coq proofs (section machine, list machine and their line-by-line combination = declarative nesting models for every page) + tree correspondence",
        text="Theorem c02_sections_follow_nesting_model: for every document of headings, content blocks and rules the stack "
             "machine shaped like subtitle_start_fn/hline_fn produces exactly the tree of the right-to-left 'a section absorbs "
             "what follows' specification (proved via the attach bridge). The model is tied to parser.py by comparing the "
             "section/rule/paragraph structure of real parse trees (exhaustive heading sequences to length 3-4, random to 12 "
             "blocks, 17 balanced fillers) inside Coq. Theorems c02_lists_follow_nesting_model and c02_depth_correction_is_idle: for every "
             "block of list lines the machine shaped like list_fn + pop_until_nth_list on the parser stack builds exactly the "
             "forest of the declarative model (an item takes the following lists whose marker properly extends its own, then "
             "continues an equal-marker list, else starts its own), and pop_until_nth_list never pops on reachable stacks; tied "
             "to parser.py by comparing the list forest of real trees with Model.Lists.parse (exhaustive marker sequences of "
             "depth<=3 to 2-3 lines, marker walks, random). Theorems c02_pages_follow_nesting_model and "
             "c02_page_machine_is_sections_over_lists: on whole pages - headings, paragraphs, rules and list lines in any order - "
             "the line-by-line machine (list machine on top of the section stack; every other block first closes all open lists, "
             "close_begline_lists) builds exactly the tree of the combined specification; Model.Blocks.parse is compared inside Coq "
             "with the whole real tree of every generated page that has lists. PARTIAL: definition lists (; :), text continuing a "
             "list item and the inline content of blocks are outside the models and decided by the reference written from the "
             "property text.",
        note=TRUST + "tokenizer and inline handlers are glue under the diff.",
        ref="DESIGN.md section 4 C02"),
    "C01": dict(
        technique="Coq invariant proofs over the parser's primitive stack operations (any handler behaviour) tied by replaying recorded runs + Coq well-formedness function evaluated on every returned tree; totality by execution",
        text="PARTIAL. Proved for all inputs: _parser_merge_str_children (modelled generically) leaves no adjacent or empty "
             "strings, keeps nodes in order and keeps exactly the finalised run texts (c01_merge_*), and the model agrees with "
             "the real function on generated child lists. Decided by execution: parse() returns, leaves parser_stack empty, and "
             "the returned tree satisfies Model.Tree.wf - the ten-clause well-formedness predicate, written in Coq and evaluated "
             "by vm_compute on every real tree - for token soups over a 110-atom alphabet, grammar documents, span mutations of "
             "the repository's own test pages, nesting ladders to depth 100 and placeholder inputs, with and without "
             "pre_expand/expand_all. Theorems c01_table_trees_are_well_formed and "
             "c01_table_handlers_keep_the_stack_well_formed: for the table handlers (Model/Tables.v, tied to the parser by C03's "
             "check on written tables and token soups) the table clause of wf is an invariant of the parser stack, so every tree "
             "they return for ANY sequence of table tokens and text has rows/captions directly under tables and cells directly "
             "under rows, at every depth. Theorems c01_any_handler_behaviour_gives_a_well_formed_tree and "
             "c01_every_primitive_operation_keeps_the_stack_well_formed (Model/Stack.v, Proofs/StackProofs.v): the primitive "
             "operations through which every handler acts on the open-node stack - _parser_push, _parser_pop with its fix-ups "
             "(empty bold/italic removal, args move, URL un-push, definition swap), _parser_merge_str_children and the handlers' "
             "eight direct changes to the top node - keep for EVERY operation sequence, i.e. whatever the handlers and the "
             "tokenizer decide, the clauses strings / root / argument shape / no-largs-on-other-kinds / definition-only-on-list-"
             "items at every depth, and parse_encoded's closing loop ends with exactly the root open; the machine is tied to "
             "parser.py by recording the operations of real runs (sys.settrace on every line of parser.py) and replaying them "
             "inside Coq: the replayed tree must be the returned tree (1400+ runs, 45000+ operations per quick run). "
             "c01_guarded_handlers_place_list_and_table_nodes (Proofs/StackPlacedProofs.v): for every GUARDED operation sequence "
             "(a node is only pushed onto a permitted parent, no text into a LIST) the list and table clauses hold at every "
             "depth; that the real handlers' sequences are guarded is checked on every recorded run inside Coq. Which "
             "operations a handler chooses otherwise (the level, sarg and attrs clauses) and the tokenizer are not modelled, so "
             "there is no totality theorem for parse().",
        note=TRUST + "tree serialiser and string abstraction (empty / contains placeholder) trusted; harness/stacktrace.py (the "
             "recorder that names each change of the stack as a model operation) is untrusted - Coq compares its replay with the "
             "returned tree.",
        ref="DESIGN.md section 4 C01"),
    "C03": dict(
        technique="Coq proofs (attribute maps written by to_attrs are read back exactly by the parse_attrs scanner model; the table "
                  "handlers as a stack machine read every written table into the written grid) + scanner and table-machine "
                  "correspondence + structure oracle",
        text="Theorem c03_attribute_map_roundtrip: for every map of distinct URL-safe names and quote-free values, "
             "parse_attrs(to_attrs m) = m in the scanner model of the attribute regex; the model is run against the real "
             "parse_attrs on 2000+ generated attribute strings, well-formed and malformed. Theorem "
             "c03_tables_parse_to_written_grid (+ c03_table_is_one_child_of_what_is_open, c03_written_tree_is_the_grid): the "
             "table handlers (table_start/caption/row/hdr_cell/cell/end_fn, double_vbar_fn, vbar_fn, the attribute checks), "
             "transcribed as a machine over the parser stack (Model/Tables.v), read every written table - any number of rows "
             "and cells, one cell per line or ||/!! separated, caption, attributes on table, rows, caption and cells, tables "
             "nested in cells to any depth - into exactly one TABLE node with the written rows and cells of the written kind, "
             "attributes and content, and never reach an untranscribed case; the machine is compared inside Coq with the "
             "real parser's table skeleton on written tables and on arbitrary soups of table tokens. PARTIAL: the theorem is "
             "at the level of the handlers' tokens with text abstracted to atoms; cell contents with templates/links/markup, "
             "every paired allowed HTML tag with attributes and content, links, external links and template calls are "
             "decided by execution against the generator's structure.",
        note=TRUST + "tokenizer, text_fn beyond appending plain text, tag handlers and encoder exercised, not modelled; "
             "check_for_attributes' second branch (attribute text containing nodes) is outside the machine (it stops there; "
             "such token sequences are counted and skipped); ASCII word characters.",
        ref="DESIGN.md section 4 C03"),
    "C19": dict(
        technique="Coq proofs (attribute round trip; bracket protection leaves no double bracket; table trees are read back from what to_wikitext writes) + protect and table-emitter correspondence + three-parse round-trip oracle",
        text="Theorems c19_attributes_survive, c19_no_double_bracket_after_protection (for every string) and "
             "c19_protection_only_inserts_markers; the protect model is compared with to_wikitext on generated bracket strings. "
             "Theorems c19_table_trees_survive_the_round_trip and c19_written_tables_round_trip: what the TABLE/CAPTION/ROW/"
             "HEADER_CELL/CELL emitters write (Model/TableEmit.v, at the level of the table handlers' tokens) for ANY table tree of "
             "the shape the parser builds is read back by the table machine of Model/Tables.v as exactly that tree, at any size and "
             "nesting depth, and the trees of written tables have that shape (parse, to_wikitext, parse gives the first tree); the "
             "emitter model is compared inside Coq with the tokens of the real to_wikitext output on the trees of written tables. "
             "Theorems c19_blocks_written_back_are_the_page and c19_block_structure_survives_the_round_trip: a page tree of "
             "sections, paragraphs, rules and lists written back in document order is the page it was parsed from, so the page "
             "machine of Model/Blocks.v reads it back as the same tree; the write-back function is compared inside Coq with the "
             "block lines of the real to_wikitext output. "
             "PARTIAL: equivalence of the tree after to_wikitext + parse (up to whitespace at block boundaries), the fixed-point "
             "clause and the list-argument API are decided by execution on generated documents (sections, lists, tables with "
             "URL-safe attributes, inline markup, templates, parser functions, HTML elements, definition lists).",
        note=TRUST + "per-kind emitters and the parser exercised, not modelled; equivalence relation is harness/c19.py:norm.",
        ref="DESIGN.md section 4 C19"),
    "C12": dict(
        technique="Coq proof (ingest = adds of exactly the selected pages; last selected page per key; canonical titles verbatim) + stored-row correspondence on real .xml.bz2 dumps",
        text="Theorems c12_stores_exactly_the_selected_pages, c12_each_key_holds_its_last_selected_page, "
             "c12_no_duplicate_keys and c12_canonical_titles_are_not_altered, for every dump and namespace selection. The model "
             "is tied to dumpparser.py by writing generated dumps as real .xml.bz2 files, running parse_dump_xml + "
             "add_default_templates, and comparing get_all_pages() with the model's rows inside Coq and with the expectation "
             "the generator knows by construction (XML-special characters, significant whitespace, duplicates, redirects, "
             "content models, /documentation and /testcases placements, include/noinclude template bodies).",
        note=TRUST + "lxml/bz2 and _template_to_body are glue under the diff; namespace table regenerated from data/en.",
        ref="DESIGN.md section 4 C12"),
    "C09": dict(
        technique="Coq proof (footprint theorem: history independence for any processing function respecting the field footprint) over field sets regenerated from the sources + history oracle",
        text="Theorem c09_history_independent (generic, for every history) and c09_every_written_field_is_accounted_for: the "
             "fields that translate/fields.py finds written during processing in the current sources are each reset by "
             "start_page, re-initialised by the parse prologue, or on an explicit justified list - a new page-to-page mutable "
             "field breaks the theorem. Histories (all orders/repetitions to length 3 over 3 pages, random to 12; parse/expand "
             "steps under 7 option sets; pages invoking 13 state-mutating Lua modules; another context with extension_tags "
             "created first) are run on one context and every page's tree, expansion and messages compared with a fresh "
             "context on a copy of the database.",
        note=TRUST + "the footprint hypotheses (no hidden global state; justified fields not read) are assumptions exercised by "
             "the oracle; Lua-internal sharing is not modelled (two known findings).",
        ref="DESIGN.md section 4 C09"),
    "C11": dict(
        technique="Coq proof (invariant over every crash point of the backup/overwrite/close flow and any number of interrupted restores) + kill-point enumeration on the real process",
        text="Theorems c11_crash_safe and c11_overwrite_atomic on the file-protocol model (database, write-ahead log, backup, "
             "temporary backup name): after a kill at any step and any number of killed reopen attempts, the next open shows "
             "exactly the backed-up content. The model is tied to the code by running the real flows (override, restore after "
             "clean and unclean override, overwrite only, backup only) in a child process that is killed with os._exit at every "
             "executed line of backup_db/create_db/close_db_conn/overwrite_pages/add_page (two database sizes, some followed by "
             "a second kill during reopen) and checking integrity_check and the pages a new context sees; after every kill the "
             "four files are read from copies (database file alone, database with its log, backup, temporary backup name) and "
             "Coq checks (Model/FsDbObs.v) that this observation is one of the model's crash states of the flow and that the "
             "model's reopen of it shows what the real reopen showed (about 1300 observations per quick run). PARTIAL: SQLite "
             "and file-system atomicity are assumptions; power loss is not injected.",
        note=TRUST + "SQLite atomic commit/WAL recovery/backup API and rename atomicity are model definitions.",
        ref="DESIGN.md section 4 C11"),
    "C20": dict(
        technique="Coq proof (no-backup start-up safe for every schedule and worker count, by induction over the schedule; backup race refuted with a witness) + real multi-process runs",
        text="Theorem c20_no_backup_every_schedule on the model of create_db's start-up steps interleaved by an arbitrary "
             "schedule; c20_backup_present_refuted exhibits the check-then-unlink-then-rename race (known finding). The real "
             "code is run with 2-16 barrier-released worker processes (random offsets and page orders, templates and #invoke) "
             "and with single-preemption schedules that pause one worker at every executed start-up line while another runs, "
             "with/without backup and bootstrap page; each worker's expansions are compared with a single process and the pages "
             "table before/after. The model is tied to the code through the gated runs: Coq checks that what really happened "
             "when one worker was paused during start-up while the other ran (which worker went wrong, what the database holds "
             "afterwards) is the outcome of some schedule of the model's two workers - all 924 interleavings; without a backup "
             "file that is the single good outcome (about 115 gated runs per quick run; runs in which a worker gave up waiting "
             "for a lock are outside the model). PARTIAL: real interleavings are sampled, lock time-outs are "
             "timing-dependent and outside the model.",
        note=TRUST + "SQLite locking and the OS scheduler are outside the model.",
        ref="DESIGN.md section 4 C20"),
    "C07": dict(
        technique="Coq proof (hook/pcall state machine: plain programs are always stopped within one hook period; pcall loop and exposed controls refuted) + every program shape run for real under a watchdog",
        text="Theorem c07_plain_programs_are_stopped for every program of the shape grammar that uses neither pcall nor the "
             "exposed controls; c07_pcall_loop_refuted, c07_pcall_swallows_refuted and c07_clear_hook_refuted show that the full "
             "statement is false of the faithful model, as it is of the code (known findings; c07_nested_invocation_loop_refuted: a "
             "loop around a nested invocation behaves like a loop around pcall). Each body x wrapper x placement (module top "
             "level, required/data module, after/inside a nested invocation) (tight "
             "loops, library loops, recursion; none/pcall/xpcall/nested/loops/coroutine/clear-hook/raise-limit) is compiled to a "
             "Lua module and run with a 1 s limit in its own process under an external kill, checking the abort bound, the "
             "timeout element, and that the same context then expands benign invocations correctly. The model is tied to the "
             "sandbox by correspondence: programs generated from the model's own grammar (sequencing, while-true, pcall, nested "
             "#invoke through frame:preprocess, _lua_clear_timeout_hook, _lua_set_timeout) are compiled to Lua modules, run for "
             "real, and Model.Timeout.exec's verdict (returns / stopped at the deadline / not stopped) is compared inside Coq "
             "with what happened. PARTIAL: real time is outside the model (one tick = one firing of the count hook; whether "
             "the hook fires inside or outside a pcall whose body returns is a race the model does not decide, such programs "
             "are not generated).",
        note=TRUST + "hook delivery, os.time() granularity and C-function duration are runtime behaviour; mw.ustring stubbed.",
        ref="DESIGN.md section 4 C07"),
    "C06": dict(
        technique="Coq proof (programs stay inside the capability closure; the closure of the live runtime's object graph, regenerated each run, contains no forbidden node) + attack corpus executed for real",
        text="Theorems c06_programs_stay_in_the_closure (generic), c06_closure_has_no_forbidden_node and c06_confined over the "
             "object graph read from a fresh runtime on every run (environment, frame, string metatable; fields, metatables, "
             "attributes lupa exposes on Python objects, results of require/_cached_mod for every host package name): no host "
             "io/os/package/debug function or table, real global table, load*/setfenv/getfenv, bridge object or non-helper "
             "Python object is reachable. About 50 probe modules, including ones that try to read and write files, run a command "
             "and write to the page database, are executed through #invoke and their effects checked. PARTIAL: what arbitrary "
             "Lua closures and C functions may return is not modelled (only require/_cached_mod have call summaries).",
        note=TRUST + "graph extraction (host-side walker, lupa attribute semantics) trusted; mw.ustring stubbed.",
        ref="DESIGN.md section 4 C06"),
}

NOT_YET = "check not built yet in this round (planned, see DESIGN.md section 8)"


def main():
    checks = []
    for pid in ALL:
        if pid not in CHECKS:
            continue
        c = CHECKS[pid]
        checks.append({
            "property_id": pid,
            "quick_cmd": f"./check {pid} --tier quick",
            "thorough_cmd": f"./check {pid} --tier thorough",
            "evidence_file": f"/verif/evidence/{pid}.json",
            "replay_cmd_template": f"./check {pid} --replay {{path}}",
            "engine": "coq-model+correspondence",
            "level_claimed": {"category": "proof", "text": c["text"], "design_ref": c["ref"]},
            "level_note": c["note"],
            "technique": c["technique"],
        })
    m = {
        "version": 1,
        "setup_cmd": "./setup.sh",
        "hooks": {
            "guard": "WIKITEXTPROCESSOR_VERIF",
            "enable": "no source hooks are needed: checks import /repo/src directly (PYTHONPATH) with WIKITEXTPROCESSOR_VERIF=1 set",
            "baseline_off_cmd": "cd /repo && /venv/bin/python -m pytest -ra -q -p no:cacheprovider --timeout=900 --continue-on-collection-errors",
            "source_commits": [],
            "add_only": True,
        },
        "engines": [{
            "name": "coq-model+correspondence", "path": "/verif/check",
            "serves_properties": sorted(CHECKS),
            "kind_free_text": "Coq 8.16 models and theorems (coq/), per-run model<->implementation correspondence evaluated "
                              "inside Coq (vm_compute) and translators regenerating coq/Gen/*.v from /repo (translate/)",
        }],
        "checks": checks,
        "not_applicable": [{"property_id": p, "reason": NOT_YET} for p in ALL if p not in CHECKS],
        "notes": "See DESIGN.md. known_findings.json lists genuine deviations recorded rather than repaired.",
    }
    (V / "MANIFEST.json").write_text(json.dumps(m, indent=1) + "\n")


if __name__ == "__main__":
    main()
