import json,sys
pid=sys.argv[1]
focus=int(sys.argv[2]) if len(sys.argv)>2 and sys.argv[2] not in ("", "-") else None
suffix=sys.argv[3] if len(sys.argv)>3 else ''
p=[json.loads(l) for l in open('/verif/properties.jsonl') if json.loads(l)['id']==pid][0]
print(f"""You are testing a verification effort for the Python package `wikitextprocessor` (tatuylonen/wikitextprocessor: wikitext parser, template/parser-function expander, Scribunto Lua sandbox, SQLite page store).

You have your own scratch git worktree of the repository at /tmp/seed_{pid}{suffix} (work ONLY there; never touch /repo or /verif, and do not read anything under /verif). Run Python as: cd /tmp/seed_{pid}{suffix} && PYTHONPATH=/tmp/seed_{pid}{suffix}/src /venv/bin/python ...  The existing test suite runs with: cd /tmp/seed_{pid}{suffix} && PYTHONPATH=/tmp/seed_{pid}{suffix}/src /venv/bin/python -m pytest -q -p no:cacheprovider -x -q tests/<file> (the full suite takes several minutes; a few tests need network and fail regardless - ignore those: test_process_dump and anything that fails identically without your change). There is no network. Note: the Scribunto 'ustring' Lua submodule is absent offline, so #invoke only works if you first store a stub page: ctx.add_page("Module:ustring:ustring", 828, "local u = {{}} for k,v in pairs(string) do u[k]=v end u.codepoint=string.byte u.toNFC=function(s) return s end u.toNFD=function(s) return s end u.isutf8=function(s) return true end return u", model="Scribunto").

Here is a semantic property the code is supposed to satisfy:

ID: {p['id']}
TITLE: {p['title']}
STATEMENT: {p['statement']}
QUANTIFIER: {p['quantifier']['text']}
CODE ANCHORS: {json.dumps(p['anchors']['mechanism'])}

{('FOCUS: make your change in or around the mechanism the anchors call ' + repr(p['anchors']['mechanism'][focus]['name']) + ' (other mechanisms of the property are covered by other testers).' + chr(10) + chr(10)) if focus is not None else ''}TASK: produce ONE realistic change to the package source (under src/wikitextprocessor/) - the kind of plausible bug a refactor, optimisation or feature tweak would introduce - that BREAKS this property while (a) the package still imports and (b) the existing test suite still passes exactly as before. The breakage must need something specific to manifest: a multi-step sequence of operations, an unusual-but-legal input, a particular option combination, or two cooperating sites that each look fine alone. It must NOT be something ordinary use exposes at once, and not a blatant sabotage (no 'if title == "X": return wrong').

Deliver, in /tmp/seed_{pid}{suffix}/_seed/ :
 1. patch.diff   - `git diff` of your change (source files only), applicable with `git apply` at the worktree's HEAD
 2. demo.py      - a small standalone program (run as `PYTHONPATH=<repo>/src /venv/bin/python demo.py`) that exits 0 on the ORIGINAL code and exits 1 (printing what went wrong) with your change applied. It must take the repo src path from PYTHONPATH only (no hard-coded /tmp/seed path inside imports).
 3. meta.json    - {{"property": "{pid}", "summary": "...what was changed...", "needs": "...what it takes to manifest...", "tests_run": "...which test files you ran and the result..."}}
IMPORTANT: never use `git stash` (the stash is shared between worktrees and other agents are working in sibling worktrees); to test the original use `git diff > /tmp/my.diff && git apply -R /tmp/my.diff` and re-apply afterwards. Before finishing: verify demo.py passes on the original and fails with the patch; run the most relevant existing test files (tests/test_*.py that touch the changed code) with the patch and confirm they still pass. Leave the worktree with your patch APPLIED (uncommitted). Report the summary of the change in your final message.""")
