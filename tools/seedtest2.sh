#!/bin/bash
# tools/seedtest2.sh <seed dir name> [property ids...]: like seedtest.sh, but in a scratch worktree of /repo (VERIF_REPO), so
# that /repo's working tree is left alone.  Evidence and replays of the run are written to /verif as usual.
d=$1; shift
props=${@:-$(/venv/bin/python -c "import json;print(json.load(open('/verif/seeded/$d/meta.json'))['property'])")}
R=/tmp/rs_$$
git -C /repo worktree add -q --detach $R HEAD || exit 2
trap 'git -C /repo worktree remove --force $R' EXIT
git -C $R apply /verif/seeded/$d/patch.diff || { echo "patch does not apply"; exit 2; }
for p in $props; do (cd /verif && VERIF_REPO=$R ./check $p --tier quick | grep -E "VIOLATION|^\[" | tail -4); done
