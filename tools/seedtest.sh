#!/bin/bash
# tools/seedtest.sh <seed dir name> [property ids...]: apply seeded/<dir>/patch.diff to /repo, run the checks, undo.
# The evidence files are put back afterwards: evidence that is committed must come from runs on the unchanged tree.
d=$1; shift
props=${@:-$(/venv/bin/python -c "import json;print(json.load(open('/verif/seeded/$d/meta.json'))['property'])")}
cd /repo && git status --short | grep -q . && { echo "repo dirty"; exit 2; }
git -C /repo apply /verif/seeded/$d/patch.diff || exit 2
keep=$(mktemp -d)
cp -a /verif/evidence/. $keep/
for p in $props; do (cd /verif && ./check $p --tier quick | grep -E "VIOLATION|KNOWN|^\[" | tail -4); done
git -C /repo checkout -- . ; git -C /repo status --short
cp -a $keep/. /verif/evidence/ ; rm -rf $keep
(cd /verif && PYTHONPATH=/repo/src /venv/bin/python harness/regen.py all >/dev/null 2>&1)
