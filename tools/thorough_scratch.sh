#!/bin/bash
# tools/thorough_scratch.sh [ids...]: thorough tier of the given checks (default: all) in scratch copies of /verif and /repo,
# one summary line per property on stdout.
set -u
V=/tmp/vth_$$; R=/tmp/rth_$$
ids=${@:-$(/venv/bin/python -c "import json;print(' '.join(c['property_id'] for c in json.load(open('/verif/MANIFEST.json'))['checks']))")}
rsync -a --exclude replays --exclude .git /verif/ $V/
git -C /repo worktree add -q --detach $R HEAD || exit 2
trap 'git -C /repo worktree remove --force $R; rm -rf $V' EXIT
for p in $ids; do
  s=$(date +%s)
  out=$(cd $V && VERIF_REPO=$R timeout 5400 ./check $p --tier thorough 2>&1)
  echo "$p $(( $(date +%s) - s ))s $(echo "$out" | grep -c '^VIOLATION') violations; $(echo "$out" | tail -1)"
  echo "$out" | grep '^VIOLATION' | head -5
  mkdir -p /tmp/thorough_replays; cp -r $V/replays/$p /tmp/thorough_replays/ 2>/dev/null
done
